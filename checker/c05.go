package main

import (
	"fmt"
	"go/ast"
	"go/token"
	"go/types"
	"sort"
	"strings"

	"golang.org/x/tools/go/ssa"
)

func init() {
	register(&propDef{
		id: "C05", level: "other", run: runC05,
		explanation: "Decided: (R1) promised post-state: Encode stores file.Header.DataSize, file.Header.CRC (for 14-byte headers, with the bytes MarshalBinary wrote) and file.CRC on every success path (a value-receiver method cannot count), and MarshalBinary computes the header CRC over exactly the 12 bytes written before it; (R2) ordering: the DataSize store takes the buffer length after the last record write and precedes MarshalBinary, nothing is written to the record buffer afterwards; (R3) header-byte cubes: for all 256 local numbers the definition header is 0100xxxx and the data header 0000xxxx (inside the decoder's classes of C13, developer and compressed bits clear), the architecture byte is 0 for LittleEndian and 1 for BigEndian (inverse of the decoder's switch), the definition record layout is header, reserved 0, arch, global number in the chosen order, field count, then (num,size,base) triples; (R4) definition/data size agreement: for every (kind, base, array) class that occurs in the profile table the size declared by writeDefMesg equals the byte count writeField/encodeValue emit (per-kind arm emits one binary.Write of a value of the matching static or table-determined size; the trip counts of the counted loops on writeField's array branch (helpers substituted, clamp max = min(len, length) as side condition) sum to the field's length; encodeString returns exactly `size` bytes); (R5) each writeMesg is preceded by a writeDefMesg of the same definition and the definition's field list is not modified in between. NOT decided: values on the wire equal values in the File; conformance under an independent parser as an observation; a caller-supplied binary.ByteOrder other than the two standard ones (no architecture byte would be written). (R3-no-silent-skip) a function on Encode's call tree that puts bytes out itself has no success return reachable from its entry without passing an output call (a loop whose body writes counts as writing). (R6-omission-base-type) whether a field is left out of the definition is never decided by comparing an element of its value with a fixed constant (base types sharing a Go type differ in their invalid value).",
		trusted:     []string{"encoding/binary.Write writes exactly the encoded size of a fixed-size value / len of a byte slice", "bytes.Buffer grows without error", "C15 (struct field types match the table) and C13 (decoder header classes)"},
	})
}

func runC05(c *Ctx, r *Report) {
	info := c.fit.TypesInfo
	enc := c.ssaFn(c.fn(c.fit, "Encode"))
	if enc == nil {
		r.fail("C05-anchors", "Encode", "", "not found")
		return
	}
	c05NoSilentSkip(c, r)
	c05OmissionBaseType(c, r)
	sizeCRC, _ := c.constInt(c.fit, "headerSizeCRC")
	// the tail of Encode (size, header, checksums, output) may live in a helper that Encode returns
	// the result of: analyse the function that holds it, the callers' part is checked by encodeUnit
	unit := c.encodeUnit()
	if unit == nil {
		r.fail("C05-anchors", "Encode/tail", c.pos(enc.Pos()), "no function on Encode's tail-call chain stores the file's Header.DataSize")
		return
	}
	top := enc
	enc = unit.fn
	fileP := unit.file
	// ---- R1 ------------------------------------------------------------------------------
	succ := c.successReturns(enc)
	var marshal ssa.Instruction
	for _, ci := range allCalls(enc) {
		if f := ci.Common().StaticCallee(); f != nil && f.Name() == "MarshalBinary" {
			marshal = ci
		}
	}
	stores := map[string][]*ssa.Store{}
	for _, b := range enc.Blocks {
		for _, ins := range b.Instrs {
			if st, ok := ins.(*ssa.Store); ok {
				p := pathOf(st.Addr)
				if strings.HasPrefix(p, fileP+".") {
					stores["file."+p[len(fileP)+1:]] = append(stores["file."+p[len(fileP)+1:]], st)
				}
			}
		}
	}
	for _, f := range []string{"file.Header.DataSize", "file.CRC"} {
		ok := false
		for _, st := range stores[f] {
			all := true
			for _, ret := range succ {
				if !instrDominates(st, ret) {
					all = false
				}
			}
			if all && len(succ) > 0 {
				ok = true
			}
		}
		r.check(ok, "C05-R1-post-state", f, c.pos(enc.Pos()), "stored on every success path", "Encode returns success without having stored "+f+", which its documentation promises to update")
	}
	// Header.CRC: stored from the marshalled bytes; every success return reachable from MarshalBinary without the store
	// must go through the `Size != headerSizeCRC` edge
	{
		okCRC := false
		detail := "Encode never stores file.Header.CRC: Header.MarshalBinary has a value receiver, so the CRC it computes is lost and the documented post-state (file.Header.CRC updated) does not hold"
		for _, st := range stores["file.Header.CRC"] {
			v := pathOf(st.Val)
			fromHdr := marshal != nil && strings.Contains(v, "extract#0(call[") && strings.Contains(v, "MarshalBinary") && strings.Contains(v, ".Uint16")
			guarded := domByCmpConst(enc, st.Block(), "*"+fileP+".Header.Size", token.EQL, sizeCRC, true)
			// success returns not dominated by the store must be on the Size != 14 side: i.e. all success returns are
			// reachable from marshal only via store or via the false edge
			bar := map[ssa.Instruction]bool{st: true}
			leak := false
			if marshal != nil && guarded {
				// remove the guarded-false edge: check reachability without store AND without taking the false edge
				for _, ret := range succ {
					if reachableAvoiding(marshal, ret.Block(), bar, st.Block()) {
						leak = true
					}
				}
			} else if marshal != nil {
				for _, ret := range succ {
					if reachableWithout(marshal, ret.Block(), bar) {
						leak = true
					}
				}
			}
			switch {
			case !fromHdr:
				detail = "file.Header.CRC is stored with " + v + ", not with the CRC bytes MarshalBinary wrote"
			case leak:
				detail = "a success path of Encode with a 14-byte header skips the file.Header.CRC store"
			default:
				okCRC = true
				detail = "file.Header.CRC = little-endian CRC bytes of the marshalled header, on every success path with a 14-byte header"
			}
		}
		r.check(okCRC, "C05-R1-post-state", "file.Header.CRC", c.pos(enc.Pos()), detail, detail)
	}
	// MarshalBinary: CRC over the first 12 bytes
	if fd := c.decl(c.fn(c.fit, "Header.MarshalBinary")); fd != nil {
		nBefore, nAfter := 0, 0
		seenCRC := false
		okExpr := false
		for _, s := range fd.Body.List {
			ast.Inspect(s, func(nd ast.Node) bool {
				switch x := nd.(type) {
				case *ast.CallExpr:
					if isPkgFunc(callee(info, x), "encoding/binary", "Write") {
						if seenCRC {
							nAfter++
						} else {
							nBefore++
						}
					}
				case *ast.AssignStmt:
					if len(x.Lhs) == 1 && strings.HasSuffix(exprStr(x.Lhs[0]), ".CRC") && len(x.Rhs) == 1 {
						seenCRC = true
						okExpr = strings.ReplaceAll(exprStr(x.Rhs[0]), " ", "") == "dyncrc16.Checksum(buf.Bytes())"
					}
				}
				return true
			})
		}
		r.check(seenCRC && okExpr && nBefore == 5 && nAfter == 1, "C05-R1-post-state", "Header.MarshalBinary/crc-over-12-bytes", c.pos(fd.Pos()), "header CRC = Checksum of the five fields written before it; CRC written last", fmt.Sprintf("MarshalBinary: CRC computed=%v over buf.Bytes()=%v after %d writes, %d writes after", seenCRC, okExpr, nBefore, nAfter))
	}

	// ---- R2 ordering -------------------------------------------------------------------------------
	var dsStore *ssa.Store
	if len(stores["file.Header.DataSize"]) == 1 {
		dsStore = stores["file.Header.DataSize"][0]
	}
	if dsStore == nil {
		r.fail("C05-R2-ordering", "Encode/DataSize-store", "", "not exactly one store to file.Header.DataSize")
	} else {
		v := pathOf(dsStore.Val)
		okLen := strings.HasPrefix(v, "conv<uint32>(call[(*bytes.Buffer).Len")
		// or the length of the bytes taken from the buffer once every record is in it
		var bytesCall *ssa.Call
		if cv, isCv := dsStore.Val.(*ssa.Convert); isCv && !okLen {
			if lc, isCall := cv.X.(*ssa.Call); isCall {
				if bi, isB := lc.Common().Value.(*ssa.Builtin); isB && bi.Name() == "len" {
					if bc, isBC := lc.Common().Args[0].(*ssa.Call); isBC && bc.Common().StaticCallee() != nil && bc.Common().StaticCallee().String() == "(*bytes.Buffer).Bytes" {
						bytesCall = bc
						okLen = true
						for _, ci := range allCalls(enc) {
							f := ci.Common().StaticCallee()
							if f == nil {
								continue
							}
							writesBuf := (f.Signature.Recv() != nil && strings.Contains(f.Signature.Recv().Type().String(), ".encoder")) || strings.HasPrefix(f.String(), "(*bytes.Buffer).Write")
							if writesBuf && !instrDominates(ci, bc) {
								okLen = false
							}
						}
					}
				}
			}
		}
		_ = bytesCall
		r.check(okLen, "C05-R2-ordering", "Encode/DataSize-value", c.pos(dsStore.Pos()), "DataSize = uint32(buf.Len())", "DataSize is set to "+v+", not to the record buffer's length")
		okOrder := marshal != nil && instrDominates(dsStore, marshal)
		late := ""
		for _, ci := range allCalls(enc) {
			f := ci.Common().StaticCallee()
			if f == nil {
				continue
			}
			writesBuf := (f.Signature.Recv() != nil && strings.Contains(f.Signature.Recv().Type().String(), ".encoder")) || strings.HasPrefix(f.String(), "(*bytes.Buffer).Write")
			if !writesBuf {
				continue
			}
			if !instrDominates(ci, dsStore) {
				late = calleeName(ci.Common()) + " at " + c.pos(ci.Pos())
			}
		}
		// record writes in the callers on the chain come before the tail call
		for i, caller := range unit.chain {
			for _, ci := range allCalls(caller) {
				f := ci.Common().StaticCallee()
				if f == nil || ci == unit.tail[i] {
					continue
				}
				writesBuf := (f.Signature.Recv() != nil && strings.Contains(f.Signature.Recv().Type().String(), ".encoder")) || strings.HasPrefix(f.String(), "(*bytes.Buffer).Write")
				if writesBuf && !instrDominates(ci, unit.tail[i]) {
					late = calleeName(ci.Common()) + " at " + c.pos(ci.Pos())
				}
			}
		}
		_ = top
		r.check(okOrder && late == "", "C05-R2-ordering", "Encode/records-before-size", c.pos(dsStore.Pos()), "every record write dominates the DataSize store, which dominates MarshalBinary", "a record is written after the data size was taken or the header is marshalled before the size is known: "+late)
	}

	// ---- R3 cubes ------------------------------------------------------------------------------------
	c05Headers(c, r)
	// ---- R4 sizes ------------------------------------------------------------------------------------
	c05Sizes(c, r)
	// ---- R5 definition precedes data ---------------------------------------------------------------------
	c05DefBeforeData(c, r)
	encodeDefCovers(c, r, "C05-R5-def-before-data")
	encodeProfileRows(c, r, "C05-R4-size-agreement")
	encodeNoRowCopies(c, r, "C05-R4-size-agreement")
	encodePrivateBuffer(c, r, "C05-R2-ordering")
}

// reachableAvoiding: like reachableWithout, but additionally any block for which `mustPass` is a
// dominating sibling is skipped: we forbid entering blocks other than via the guarded block when the
// guard's true edge leads to mustPass. Implemented as: treat the false edge of the If whose true
// successor dominates mustPass as an allowed exemption (not followed).
func reachableAvoiding(from ssa.Instruction, to *ssa.BasicBlock, barrier map[ssa.Instruction]bool, mustPass *ssa.BasicBlock) bool {
	// find guard block: the unique predecessor chain whose Succs[0] dominates mustPass
	var guard *ssa.BasicBlock
	for b := mustPass; b != nil; b = b.Idom() {
		for _, p := range b.Preds {
			if len(p.Succs) == 2 && p.Succs[0] == b && len(b.Preds) == 1 {
				guard = p
			}
		}
		if guard != nil {
			break
		}
	}
	fb := from.Block()
	start := instrIndex(from) + 1
	blocked := func(b *ssa.BasicBlock, s int) bool {
		for i := s; i < len(b.Instrs); i++ {
			if barrier[b.Instrs[i]] {
				return true
			}
		}
		return false
	}
	if blocked(fb, start) {
		return false
	}
	seen := map[*ssa.BasicBlock]bool{}
	var q []*ssa.BasicBlock
	push := func(b *ssa.BasicBlock) {
		for i, s := range b.Succs {
			if b == guard && i == 1 {
				continue // exemption edge
			}
			q = append(q, s)
		}
	}
	push(fb)
	for len(q) > 0 {
		b := q[0]
		q = q[1:]
		if seen[b] {
			continue
		}
		seen[b] = true
		if blocked(b, 0) {
			continue
		}
		if b == to {
			return true
		}
		push(b)
	}
	return false
}

func c05Headers(c *Ctx, r *Report) {
	info := c.fit.TypesInfo
	check := func(fname, want string) {
		fn := c.ssaFn(c.fn(c.fit, fname))
		if fn == nil {
			r.fail("C05-R3-header-bytes", fname, "", "not found")
			return
		}
		// first binary.Write's data (directly, or through a wrapper that only forwards to binary.Write)
		var first *ssa.Call
		var firstData ssa.Value
		for _, b := range fn.Blocks {
			for _, ins := range b.Instrs {
				if call, ok := ins.(*ssa.Call); ok && first == nil {
					if _, _, d, ok := binaryWriteArgs(call); ok {
						first = call
						firstData = d
					}
				}
			}
			if first != nil {
				break
			}
		}
		if first == nil {
			r.fail("C05-R3-header-bytes", fname, "", "no header write")
			return
		}
		data := firstData
		if mi, ok := data.(*ssa.MakeInterface); ok {
			data = mi.X
		}
		// variable: load of def.localMesgNum
		var lv ssa.Value
		var find func(v ssa.Value)
		find = func(v ssa.Value) {
			switch n := v.(type) {
			case *ssa.UnOp:
				if strings.HasSuffix(pathOf(n), ".localMesgNum") {
					lv = n
				}
			case *ssa.BinOp:
				find(n.X)
				find(n.Y)
			case *ssa.Convert:
				find(n.X)
			}
		}
		find(data)
		if lv == nil {
			r.undecided("C05-R3-header-bytes", fname, c.pos(first.Pos()), "record header is not computed from def.localMesgNum: "+pathOf(data))
			return
		}
		bad := ""
		for x := 0; x < 256; x++ {
			v, ok := evalByte(data, lv, uint8(x))
			if !ok {
				bad = "header expression not evaluable: " + pathOf(data)
				break
			}
			hb := uint8(v)
			if fitClass(hb) != want || hb&0x20 != 0 || hb&0x0F != uint8(x)&0x0F {
				bad = fmt.Sprintf("for local number %d the header byte is %#02x (%08b): class %s, developer bit %v, local type %d; expected a %s header with local type %d and reserved bits clear", x, hb, hb, fitClass(hb), hb&0x20 != 0, hb&0x0F, want, x&0x0F)
				break
			}
		}
		r.check(bad == "", "C05-R3-header-bytes", fname, c.pos(first.Pos()), "all 256 local numbers give a well-formed "+want+" header", bad)
	}
	check("encoder.writeDefMesg", "definition")
	check("encoder.writeMesg", "data")
	// definition record layout (syntax): sequence of binary.Write arguments in writeDefMesg
	fd := c.decl(c.fn(c.fit, "encoder.writeDefMesg"))
	if fd == nil {
		return
	}
	var seq []string
	archMap := map[string]string{}
	for _, s := range fd.Body.List {
		switch s.(type) {
		case *ast.SwitchStmt, *ast.IfStmt:
			// `switch e.arch { case binary.X: write(k) }` or `if e.arch == binary.X { write(k) } else if ...`
			arms, _, isChain := asIfChain(s)
			isArch := false
			for _, a := range arms {
				be, ok := unparen(a.cond).(*ast.BinaryExpr)
				if !ok || be.Op != token.EQL {
					continue
				}
				l, rr := exprStr(be.X), exprStr(be.Y)
				if strings.HasSuffix(rr, ".arch") {
					l, rr = rr, l
				}
				if !strings.HasSuffix(l, ".arch") {
					continue
				}
				isArch = true
				if len(a.body) == 1 {
					ast.Inspect(a.body[0], func(nd ast.Node) bool {
						if call, ok := nd.(*ast.CallExpr); ok && isPkgFunc(callee(info, call), "encoding/binary", "Write") && len(call.Args) == 3 {
							if v, ok := exprInt(info, call.Args[2]); ok {
								archMap[rr] = fmt.Sprint(v)
							}
						}
						return true
					})
				}
			}
			if isChain && isArch {
				seq = append(seq, "arch")
			} else {
				ast.Inspect(s, func(nd ast.Node) bool {
					if call, ok := nd.(*ast.CallExpr); ok && isPkgFunc(callee(info, call), "encoding/binary", "Write") && len(call.Args) == 3 {
						a := strings.ReplaceAll(exprStr(call.Args[2]), " ", "")
						if v, isConst := exprInt(info, call.Args[2]); isConst {
							a = fmt.Sprintf("const %d", v)
						}
						if !strings.HasSuffix(exprStr(call.Args[1]), ".arch") {
							a += "@fixed-order"
						}
						seq = append(seq, a)
					}
					return true
				})
			}
		case *ast.RangeStmt:
			seq = append(seq, "fields")
		default:
			ast.Inspect(s, func(nd ast.Node) bool {
				if call, ok := nd.(*ast.CallExpr); ok && isPkgFunc(callee(info, call), "encoding/binary", "Write") && len(call.Args) == 3 {
					a := strings.ReplaceAll(exprStr(call.Args[2]), " ", "")
					if v, isConst := exprInt(info, call.Args[2]); isConst {
						a = fmt.Sprintf("const %d", v) // a literal, a conversion of one or a named constant: the value is what is written
					}
					if !strings.HasSuffix(exprStr(call.Args[1]), ".arch") {
						a += "@fixed-order"
					}
					seq = append(seq, a)
				}
				return true
			})
		}
	}
	got := strings.Join(seq, " | ")
	want := "hdr | const 0 | arch | def.globalMesgNum | byte(len(def.fields)) | fields"
	r.check(got == want, "C05-R3-def-layout", "writeDefMesg/sequence", c.pos(fd.Pos()), got, "definition record is written as ["+got+"], FIT layout is ["+want+"]")
	okArch := archMap["binary.LittleEndian"] == "0" && archMap["binary.BigEndian"] == "1" && len(archMap) == 2
	if !okArch {
		// alternative spelling: arch, ok := h(e.arch); if ok { binary.Write(e.w, e.arch, arch) }
		if m, okH := c05ArchHelper(c); okH {
			okArch, archMap = true, m
		}
	}
	le0, _ := c.constInt(c.fit, "littleEndian")
	be1, _ := c.constInt(c.fit, "bigEndian")
	r.check(okArch && le0 == 0 && be1 == 1, "C05-R3-def-layout", "writeDefMesg/arch-byte", c.pos(fd.Pos()), "LittleEndian -> 0, BigEndian -> 1 (inverse of the decoder's switch)", fmt.Sprintf("architecture byte mapping is %v; decoder expects 0 = little endian, 1 = big endian", archMap))
	// fieldDef layout: three one-byte members num,size,btype
	if o := c.fit.Types.Scope().Lookup("fieldDef"); o != nil {
		st, _ := o.Type().Underlying().(*types.Struct)
		ok := st != nil && st.NumFields() == 3
		if ok {
			for i, n := range []string{"num", "size", "btype"} {
				if st.Field(i).Name() != n || typeWidth(st.Field(i).Type()) != 8 {
					ok = false
				}
			}
		}
		r.check(ok, "C05-R3-def-layout", "fieldDef", c.pos(o.Pos()), "field definition triple is (num, size, base type), one byte each", "fieldDef is not three one-byte members in the order num, size, btype (it is written with binary.Write as a whole)")
	}
}

// c05Sizes: R4.
func c05Sizes(c *Ctx, r *Report) {
	info := c.fit.TypesInfo
	p, errs := c.profile()
	if p == nil || len(errs) > 0 {
		r.fail("C05-R4-size-agreement", "profile", "", "profile tables not readable: "+strings.Join(errs, "; "))
		return
	}
	// (a) declared size formula in writeDefMesg
	fd := c.decl(c.fn(c.fit, "encoder.writeDefMesg"))
	c.inlineTypeAccessorLocals(fd)
	c.inlineTypeAccessorLocals(c.decl(c.fn(c.fit, "encoder.writeField")))
	declOK := false
	declWhy := "writeDefMesg's field loop is not recognised"
	if fd != nil {
		for _, s := range fd.Body.List {
			rg, ok := s.(*ast.RangeStmt)
			if !ok || len(rg.Body.List) < 3 {
				continue
			}
			fvar := exprStr(rg.Value)
			as, ok1 := rg.Body.List[0].(*ast.AssignStmt)
			arms, elseBody, ok2 := asIfChain(rg.Body.List[1])
			if !ok1 || !ok2 || len(as.Rhs) != 1 || len(arms) != 2 || elseBody != nil {
				continue
			}
			cl, ok := as.Rhs[0].(*ast.CompositeLit)
			if !ok {
				continue
			}
			vals := map[string]string{}
			for _, el := range cl.Elts {
				if kv, ok := el.(*ast.KeyValueExpr); ok {
					vals[exprStr(kv.Key)] = strings.ReplaceAll(exprStr(kv.Value), " ", "")
				}
			}
			dv := exprStr(as.Lhs[0])
			okLit := vals["num"] == fvar+".num" && vals["size"] == "byte("+fvar+".t.BaseType().Size())" && vals["btype"] == fvar+".t.BaseType()"
			// if fdef.btype == types.BaseString { fdef.size = f.length } else if f.t.Array() { fdef.size = fdef.size * f.length }
			norm := func(n ast.Node) string {
				var sb strings.Builder
				ast.Inspect(n, func(x ast.Node) bool {
					if a, ok := x.(*ast.AssignStmt); ok {
						rhs := exprStr(a.Rhs[0])
						if a.Tok != token.ASSIGN && a.Tok != token.DEFINE {
							// x op= y is x = x op y
							rhs = exprStr(a.Lhs[0]) + strings.TrimSuffix(a.Tok.String(), "=") + rhs
						}
						sb.WriteString(strings.ReplaceAll(exprStr(a.Lhs[0])+"="+rhs, " ", "") + ";")
					}
					return true
				})
				return sb.String()
			}
			c1 := strings.ReplaceAll(exprStr(arms[0].cond), " ", "") == dv+".btype==types.BaseString"
			b1 := len(arms[0].body) == 1 && norm(&ast.BlockStmt{List: arms[0].body}) == dv+".size="+fvar+".length;"
			okElse := false
			{
				c2 := strings.ReplaceAll(exprStr(arms[1].cond), " ", "") == fvar+".t.Array()"
				n2 := norm(&ast.BlockStmt{List: arms[1].body})
				b2 := n2 == dv+".size="+dv+".size*"+fvar+".length;" || n2 == dv+".size="+fvar+".length*"+dv+".size;"
				okElse = c2 && b2 && len(arms[1].body) == 1
			}
			// then binary.Write(..., fdef)
			okW := false
			ast.Inspect(rg.Body.List[2], func(nd ast.Node) bool {
				if call, ok := nd.(*ast.CallExpr); ok && isPkgFunc(callee(info, call), "encoding/binary", "Write") && len(call.Args) == 3 && exprStr(call.Args[2]) == dv {
					okW = true
				}
				return true
			})
			if okLit && c1 && b1 && okElse && okW && len(rg.Body.List) <= 4 {
				declOK = true
				declWhy = "declared size = base size; strings: profile length; arrays: base size x profile length"
			} else {
				declWhy = fmt.Sprintf("writeDefMesg size formula not recognised (literal=%v string-branch=%v/%v array-branch=%v written=%v)", okLit, c1, b1, okElse, okW)
			}
		}
	}
	if !declOK {
		// the same three cases spelled differently (switch, hoisted base type, op-assignment): read them from
		// the SSA stores into the fieldDef that is written
		if ok, why := c05DeclaredSizeSSA(c); ok {
			declOK, declWhy = true, why
		} else {
			declWhy += "; " + why
		}
	}
	if declOK {
		r.ok("C05-R4-size-agreement", "writeDefMesg/declared-size", c.pos(fd.Pos()), declWhy)
	} else {
		r.undecided("C05-R4-size-agreement", "writeDefMesg/declared-size", "", declWhy)
	}
	// (b) emitted size per kind arm of encodeValue
	ev := c.ssaFn(c.fn(c.fit, "encoder.encodeValue"))
	emit := map[int]string{} // kind -> "4" | "dynamic"
	if ev == nil {
		r.fail("C05-R4-size-agreement", "encodeValue", "", "not found")
		return
	}
	writes, wwhy := c.encodeValueWrites()
	if wwhy != "" {
		r.undecided("C05-R4-size-agreement", "encodeValue/one-write-per-arm", c.pos(ev.Pos()), wwhy)
	}
	expect := map[int]struct{ val, size string }{
		kindUTC:   {"(iface (call fit.encodeTime (assert:Time p1)))", "4"},
		kindLocal: {"(iface (conv:uint32 " + symBin(token.ADD, "(conv:int64 (call fit.encodeTime (assert:Time p1)))", "(conv:int64 (ext1 (call time.Zone (assert:Time p1))))") + "))", "4"},
		kindLat:   {"(iface (fld0 (assert:Latitude p1)))", "4"},
		kindLng:   {"(iface (fld0 (assert:Longitude p1)))", "4"},
	}
	for i, w := range writes {
		sz := ""
		if e, ok := expect[w.kind]; ok {
			if w.val == e.val {
				sz = e.size
			}
		} else if w.kind == 0 {
			if w.val == "p1" && !w.stringBranch {
				sz = "dynamic"
			}
			if w.stringBranch && strings.HasPrefix(w.val, "(iface (ext0 (call fit.encodeString (assert:string p1) *p2.f") {
				sz = "dynamic"
			}
		}
		if prev, dup := emit[w.kind]; dup && prev != sz {
			sz = "conflict"
		}
		emit[w.kind] = sz
		r.check(w.w == "*p0.f0" && w.arch == "*p0.f1", "C05-R4-size-agreement", fmt.Sprintf("encodeValue/write-%d-order", i+1), c.pos(ev.Pos()), "value written to the encoder's writer in the encoder's byte order", "a field value is written to "+w.w+" with order "+w.arch+" instead of the encoder's writer and byte order")
	}
	r.check(wwhy == "" && len(emit) == 5, "C05-R4-size-agreement", "encodeValue/one-write-per-arm", c.pos(ev.Pos()), fmt.Sprintf("%d success paths over 5 kinds, exactly one binary.Write on each", len(writes)), "encodeValue does not perform exactly one binary.Write on every success path of each of the five kinds")
	// (c) encodeString returns exactly size bytes
	if fd := c.decl(c.fn(c.fit, "encodeString")); fd != nil {
		okMake, okRet := false, true
		var bvar string
		ast.Inspect(fd.Body, func(nd ast.Node) bool {
			switch x := nd.(type) {
			case *ast.AssignStmt:
				if len(x.Rhs) == 1 {
					if call, ok := x.Rhs[0].(*ast.CallExpr); ok && len(call.Args) == 2 {
						if b, ok := info.Uses[identOf(call.Fun)].(*types.Builtin); ok && b.Name() == "make" && exprStr(call.Args[1]) == "size" {
							okMake = true
							bvar = exprStr(x.Lhs[0])
						}
					}
				}
			case *ast.ReturnStmt:
				if len(x.Results) == 2 && exprStr(x.Results[1]) == "nil" && exprStr(x.Results[0]) != bvar {
					okRet = false
				}
			}
			return true
		})
		r.check(okMake && okRet, "C05-R4-size-agreement", "encodeString/length", c.pos(fd.Pos()), "returns the make([]byte, size) buffer: exactly `size` bytes", "encodeString does not return a slice of exactly `size` bytes")
	}
	// (d) writeField loops
	c05WriteField(c, r)
	// (e) per class agreement
	ev2 := newEvaluator(c)
	type cls struct {
		t      uint16
		goSize int
	}
	seen := map[string]bool{}
	var keys []string
	for _, mn := range p.sortedMsgs() {
		mt := p.MsgTypes[mn]
		if mt == nil {
			continue
		}
		st, _ := mt.Underlying().(*types.Struct)
		for _, num := range p.sortedNums(mn) {
			pf := p.Fields[mn][num]
			if st == nil || pf.Sindex < 0 || pf.Sindex >= st.NumFields() {
				continue
			}
			ft := st.Field(pf.Sindex).Type()
			elem := ft
			if sl, ok := ft.Underlying().(*types.Slice); ok {
				elem = sl.Elem()
			}
			gs := typeWidth(elem) / 8
			bi := c.baseInfo(ev2, pf.Base)
			key := fmt.Sprintf("kind%d/base%#02x/array=%v/len%d/go%d", pf.Kind, pf.Base, pf.Array, pf.Length, gs)
			if seen[key] {
				continue
			}
			seen[key] = true
			keys = append(keys, key)
			isStr := pf.Base == 0x07
			declared := bi.Size
			if isStr {
				declared = pf.Length
			} else if pf.Array {
				declared = bi.Size * pf.Length
			}
			emitted := -1
			why := ""
			one := func() int {
				e := emit[pf.Kind]
				switch {
				case e == "dynamic" && isStr:
					return pf.Length
				case e == "dynamic":
					return gs
				case e == "" || e == "conflict":
					return -1
				}
				var n int
				fmt.Sscan(e, &n)
				return n
			}
			switch {
			case pf.Array && isStr:
				emitted, why = declared, "string arrays are rejected by writeField before anything is written (C07 covers encodability)"
			case pf.Array:
				o := one()
				if o >= 0 {
					emitted = o * pf.Length
				}
			default:
				emitted = one()
			}
			if declOK && emitted == declared && declared <= 255 {
				r.ok("C05-R4-size-agreement", "class/"+key, "", fmt.Sprintf("definition declares %d bytes, data record emits %d bytes %s", declared, emitted, why))
			} else if !declOK {
				r.undecided("C05-R4-size-agreement", "class/"+key, "", "declared size formula not recognised")
			} else {
				r.fail("C05-R4-size-agreement", "class/"+key, "", fmt.Sprintf("for profile class %s the definition declares %d bytes but the data record emits %d: every following field and record of the stream is misaligned", key, declared, emitted))
			}
		}
	}
	sort.Strings(keys)
	r.set("size_classes", keys)
	r.need("profile size classes", len(keys), 15)
}

func c05WriteField(c *Ctx, r *Report) {
	info := c.fit.TypesInfo
	fd := c.decl(c.fn(c.fit, "encoder.writeField"))
	if fd == nil {
		r.fail("C05-R4-size-agreement", "writeField", "", "not found")
		return
	}
	c05ArrayCount(c, r)
	// scalar: exactly one encodeValue(value.Interface(), f) under !Array()
	first, _ := fd.Body.List[0].(*ast.IfStmt)
	okScalar := first != nil && strings.ReplaceAll(exprStr(first.Cond), " ", "") == "!f.t.Array()" && len(first.Body.List) == 1
	r.check(okScalar, "C05-R4-size-agreement", "writeField/scalar", c.pos(fd.Pos()), "scalars emit one value", "writeField's scalar path is not a single encodeValue")
	// writeMesg: header byte then one writeField per def.fields entry, in order
	if wm := c.decl(c.fn(c.fit, "encoder.writeMesg")); wm != nil {
		okWM := false
		for _, s := range wm.Body.List {
			if rg, ok := s.(*ast.RangeStmt); ok && strings.HasSuffix(exprStr(rg.X), ".fields") {
				n := 0
				ast.Inspect(rg.Body, func(nd ast.Node) bool {
					if call, ok := nd.(*ast.CallExpr); ok {
						if f, ok := callee(info, call).(*types.Func); ok && f.Name() == "writeField" {
							n++
						}
					}
					return true
				})
				okWM = n == 1
			}
		}
		r.check(okWM, "C05-R4-size-agreement", "writeMesg/one-field-per-def-entry", c.pos(wm.Pos()), "data record = header byte + one writeField per definition field, in definition order", "writeMesg does not emit exactly one field per definition entry")
	}
}

// c05DefBeforeData: R5.
func c05DefBeforeData(c *Ctx, r *Report) {
	n := 0
	// every function on Encode's call tree that writes data records (found by role, not by name)
	var writers []*ssa.Function
	if enc := c.ssaFn(c.fn(c.fit, "Encode")); enc != nil {
		for _, fn := range c.reach([]*ssa.Function{enc}).module() {
			if fnPkgPath(fn) != modPath {
				continue
			}
			for _, ci := range allCalls(fn) {
				if f := ci.Common().StaticCallee(); f != nil && f.Name() == "writeMesg" {
					writers = append(writers, fn)
					break
				}
			}
		}
	}
	sort.Slice(writers, func(i, j int) bool { return writers[i].Name() < writers[j].Name() })
	for _, fn := range writers {
		fname := "encoder." + fn.Name()
		var defs, datas []*ssa.Call
		for _, ci := range allCalls(fn) {
			f := ci.Common().StaticCallee()
			if f == nil {
				continue
			}
			if call, ok := ci.(*ssa.Call); ok {
				switch f.Name() {
				case "writeDefMesg":
					defs = append(defs, call)
				case "writeMesg":
					datas = append(datas, call)
				}
			}
		}
		cellDone := map[*ssa.Alloc]map[string]string{}
		for i, d := range datas {
			n++
			key := fmt.Sprintf("%s/writeMesg-%d", fname, i)
			arg := d.Common().Args[len(d.Common().Args)-1]
			// the definition variable may live in a heap cell (captured by a closure): typestate dataflow on the cell
			if ld, isLoad := arg.(*ssa.UnOp); isLoad && ld.Op == token.MUL {
				if al, isAlloc := ld.X.(*ssa.Alloc); isAlloc {
					res, seen := cellDone[al]
					if !seen {
						res = c05CellTypestate(c, fn, al)
						cellDone[al] = res
					}
					okCell := res["use@"+c.pos(d.Pos())] == "written"
					r.check(okCell, "C05-R5-def-before-data", key, c.pos(d.Pos()), "on every feasible path the definition variable was last passed to writeDefMesg successfully before this data record", "a data record can be written while the definition variable is in state ["+res["use@"+c.pos(d.Pos())]+"]: nil, or assigned/modified but not yet written to the stream")
					for k, v := range res {
						if strings.HasPrefix(k, "modify@") {
							r.check(v == "ok", "C05-R5-def-before-data", fname+"/fields-"+k, strings.TrimPrefix(k, "modify@"), "field list is modified only before the definition is written", "the definition's field list is modified after the definition was written to the stream: data records no longer match it")
						}
					}
					continue
				}
			}
			ok := c05DefWritten(c, fn, arg, d.Block(), defs, map[ssa.Value]bool{})
			r.check(ok, "C05-R5-def-before-data", key, c.pos(d.Pos()), "every path to this data record has written the definition it uses", "a data record can be written with a definition that was not written to the stream first (or not the same definition)")
		}
		// def.fields stores must precede the writeDefMesg of that def
		for _, b := range fn.Blocks {
			for _, ins := range b.Instrs {
				st, ok := ins.(*ssa.Store)
				if !ok {
					continue
				}
				fa, ok := st.Addr.(*ssa.FieldAddr)
				if !ok || !strings.HasSuffix(pathOf(fa), ".fields") {
					continue
				}
				if ld, isLoad := fa.X.(*ssa.UnOp); isLoad {
					if _, isAlloc := ld.X.(*ssa.Alloc); isAlloc {
						continue // judged by the cell typestate analysis
					}
				}
				okB := false
				for _, d := range defs {
					if d.Common().Args[len(d.Common().Args)-1] != fa.X {
						continue
					}
					if instrDominates(st, d) {
						okB = true
						continue
					}
					// store inside a loop that builds the list: it must reach the definition write and must not be
					// reachable from it again without re-entering through the block that creates the list
					var region *ssa.BasicBlock
					for x := st.Block(); x != nil; x = x.Idom() {
						if x.Dominates(d.Block()) {
							region = x
							break
						}
					}
					if region != nil && reachableFrom(st.Block(), d.Block(), nil) && !reachableFrom(d.Block(), st.Block(), region) {
						okB = true
					}
				}
				r.check(okB, "C05-R5-def-before-data", fmt.Sprintf("%s/fields-store@%s", fname, c.pos(st.Pos())), c.pos(st.Pos()), "field list is completed before the definition is written", "the definition's field list is modified after (or independently of) writing the definition: data records no longer match it")
			}
		}
	}
	r.need("writeMesg call sites", n, 2)
}

// c05DefWritten: value v (a *encodeMesgDef) used in block at has been passed to writeDefMesg on every path.
func c05DefWritten(c *Ctx, fn *ssa.Function, v ssa.Value, at *ssa.BasicBlock, defs []*ssa.Call, seen map[ssa.Value]bool) bool {
	if seen[v] {
		return true // loop-carried: inductive hypothesis
	}
	seen[v] = true
	for _, d := range defs {
		if d.Common().Args[len(d.Common().Args)-1] == v && c.errNilDominates(fn, d, at) {
			return true
		}
		if d.Common().Args[len(d.Common().Args)-1] == v && d.Block().Dominates(at) && d.Block() != at {
			// dominated by the call but not by its err == nil edge
			continue
		}
	}
	phi, ok := v.(*ssa.Phi)
	if !ok {
		return false
	}
	for i, e := range phi.Edges {
		pred := phi.Block().Preds[i]
		// the edge pred -> phi block may itself be the success edge of writeDefMesg(e)
		covered := false
		for _, d := range defs {
			if d.Common().Args[len(d.Common().Args)-1] == e && errNilEdge(fn, d, pred, phi.Block()) {
				covered = true
			}
		}
		if covered {
			continue
		}
		if isNilConst(e) {
			// allowed only if the nil case is excluded before use: the use block must be dominated by an `!= nil` edge
			// or the path through nil leads to a branch that assigns (handled by the other edges of later phis)
			if !nilExcluded(fn, phi, at) {
				return false
			}
			continue
		}
		if !c05DefWritten(c, fn, e, pred, defs, seen) {
			return false
		}
	}
	return true
}

// errNilEdge: the CFG edge pred->succ is (or lies behind) the err == nil edge of call.
func errNilEdge(fn *ssa.Function, call *ssa.Call, pred, succ *ssa.BasicBlock) bool {
	for _, blk := range fn.Blocks {
		if len(blk.Instrs) == 0 {
			continue
		}
		ifi, ok := blk.Instrs[len(blk.Instrs)-1].(*ssa.If)
		if !ok {
			continue
		}
		x, trueIsNonNil, ok := nilTest(ifi.Cond)
		if !ok || x != ssa.Value(call) {
			continue
		}
		nilSucc := blk.Succs[1]
		if !trueIsNonNil {
			nilSucc = blk.Succs[0]
		}
		if blk == pred && nilSucc == succ {
			return true
		}
		if len(nilSucc.Preds) == 1 && nilSucc.Dominates(pred) {
			return true
		}
	}
	return false
}

// nilExcluded: on the way from phi to the use block, `phi == nil` sends control to a branch that
// replaces the value (so the nil never reaches the use): the use's argument is a later phi whose
// edge from the non-nil side is this phi.
func nilExcluded(fn *ssa.Function, phi *ssa.Phi, at *ssa.BasicBlock) bool {
	for _, b := range fn.Blocks {
		if len(b.Instrs) == 0 {
			continue
		}
		ifi, ok := b.Instrs[len(b.Instrs)-1].(*ssa.If)
		if !ok {
			continue
		}
		x, trueIsNonNil, ok := nilTest(ifi.Cond)
		if !ok || x != ssa.Value(phi) {
			continue
		}
		nonNil := b.Succs[0]
		if !trueIsNonNil {
			nonNil = b.Succs[1]
		}
		// the edge carrying phi into a later phi must come from the non-nil side
		for _, ref := range *phi.Referrers() {
			if p2, ok := ref.(*ssa.Phi); ok && p2 != phi {
				for i, e := range p2.Edges {
					if e == ssa.Value(phi) && (p2.Block().Preds[i] == b && nonNil == p2.Block() || nonNil.Dominates(p2.Block().Preds[i])) {
						return true
					}
				}
			}
		}
	}
	return false
}

// c05CellTypestate: forward dataflow over the CFG for a local pointer cell holding the current
// definition. Abstract state = subset of {nil, unwritten, written}. Transfer: store nil -> nil;
// store other -> unwritten; writeDefMesg(load cell) whose error edge returns -> written; store into
// (load cell).fields -> unwritten (and flagged if the state contained written); `load cell == nil`
// refines the two edges. Result: state at every writeMesg(load cell) use and every field-list store.
func c05CellTypestate(c *Ctx, fn *ssa.Function, cell *ssa.Alloc) map[string]string {
	const (
		sNil = 1 << iota
		sUnwritten
		sWritten
	)
	name := func(s int) string {
		var p []string
		if s&sNil != 0 {
			p = append(p, "nil")
		}
		if s&sUnwritten != 0 {
			p = append(p, "unwritten")
		}
		if s&sWritten != 0 {
			p = append(p, "written")
		}
		if len(p) == 0 {
			return "unreachable"
		}
		return strings.Join(p, "|")
	}
	isLoad := func(v ssa.Value) bool {
		u, ok := v.(*ssa.UnOp)
		return ok && u.Op == token.MUL && u.X == ssa.Value(cell)
	}
	in := map[*ssa.BasicBlock]int{}
	res := map[string]string{}
	work := []*ssa.BasicBlock{cell.Block()}
	inWork := map[*ssa.BasicBlock]bool{cell.Block(): true}
	for iter := 0; len(work) > 0 && iter < 10000; iter++ {
		b := work[0]
		work = work[1:]
		inWork[b] = false
		st := in[b]
		for _, ins := range b.Instrs {
			switch n := ins.(type) {
			case *ssa.Alloc:
				if n == cell {
					st = sNil
				}
			case *ssa.Store:
				if n.Addr == ssa.Value(cell) {
					if isNilConst(n.Val) {
						st = sNil
					} else {
						st = sUnwritten
					}
				} else if fa, ok := n.Addr.(*ssa.FieldAddr); ok && isLoad(fa.X) {
					k := "modify@" + c.pos(n.Pos())
					if st&sWritten != 0 {
						res[k] = "after-write"
					} else if res[k] == "" {
						res[k] = "ok"
					}
					if st != 0 {
						st = (st &^ sWritten) | sUnwritten
					}
				}
			case *ssa.Call:
				f := n.Common().StaticCallee()
				if f == nil {
					break
				}
				args := n.Common().Args
				if f.Name() == "writeDefMesg" && len(args) > 0 && isLoad(args[len(args)-1]) {
					// error edge must leave the function
					okRet := false
					if ifi, ok := b.Instrs[len(b.Instrs)-1].(*ssa.If); ok {
						if x, nn, ok := nilTest(ifi.Cond); ok && x == ssa.Value(n) {
							errSucc := b.Succs[0]
							if !nn {
								errSucc = b.Succs[1]
							}
							if _, isRet := errSucc.Instrs[len(errSucc.Instrs)-1].(*ssa.Return); isRet {
								okRet = true
							}
						}
					}
					if okRet && st&sNil == 0 && st != 0 {
						st = sWritten
					}
				}
				if f.Name() == "writeMesg" && len(args) > 0 && isLoad(args[len(args)-1]) {
					k := "use@" + c.pos(n.Pos())
					if prev, ok := res[k]; ok && prev != name(st) {
						res[k] = prev + "+" + name(st)
					} else {
						res[k] = name(st)
					}
				}
			}
		}
		// successors with refinement
		for i, succ := range b.Succs {
			out := st
			if ifi, ok := b.Instrs[len(b.Instrs)-1].(*ssa.If); ok {
				if x, trueIsNonNil, ok := nilTest(ifi.Cond); ok && isLoad(x) {
					nonNilEdge := (i == 0) == trueIsNonNil
					if nonNilEdge {
						out &^= sNil
					} else {
						out &= sNil
					}
				}
			}
			if out|in[succ] != in[succ] {
				in[succ] |= out
				if !inWork[succ] {
					work = append(work, succ)
					inWork[succ] = true
				}
			}
		}
	}
	return res
}

// encUnit: where the tail of Encode lives. chain[i] calls tail[i] (a call whose result it returns on
// every success path and to which it hands its own *File parameter); the last callee is fn.
type encUnit struct {
	fn    *ssa.Function
	file  string // name of fn's *File parameter
	chain []*ssa.Function
	tail  []ssa.CallInstruction
}

func (c *Ctx) encodeUnit() *encUnit {
	fn := c.ssaFn(c.fn(c.fit, "Encode"))
	if fn == nil {
		return nil
	}
	fileParam := func(f *ssa.Function) *ssa.Parameter {
		for _, p := range f.Params {
			if pt, ok := p.Type().(*types.Pointer); ok {
				if n, ok := pt.Elem().(*types.Named); ok && n.Obj().Name() == "File" && n.Obj().Pkg() != nil && n.Obj().Pkg().Path() == modPath {
					return p
				}
			}
		}
		return nil
	}
	u := &encUnit{}
	for depth := 0; depth < 4; depth++ {
		fp := fileParam(fn)
		if fp == nil {
			return nil
		}
		for _, b := range fn.Blocks {
			for _, ins := range b.Instrs {
				if st, ok := ins.(*ssa.Store); ok && pathOf(st.Addr) == fp.Name()+".Header.DataSize" {
					u.fn, u.file = fn, fp.Name()
					return u
				}
			}
		}
		// tail call: every success return returns the result of one call that is given the file
		var tail ssa.CallInstruction
		ok := true
		nret := 0
		for _, ret := range c.successReturns(fn) {
			nret++
			call, isCall := ret.Results[len(ret.Results)-1].(*ssa.Call)
			if !isCall || (tail != nil && tail != ssa.CallInstruction(call)) {
				ok = false
				break
			}
			tail = call
		}
		if !ok || tail == nil || nret == 0 {
			return nil
		}
		callee := tail.Common().StaticCallee()
		given := false
		for _, a := range tail.Common().Args {
			if a == ssa.Value(fp) {
				given = true
			}
		}
		if callee == nil || !given || !strings.HasPrefix(fnPkgPath(callee), modPath) {
			return nil
		}
		u.chain = append(u.chain, fn)
		u.tail = append(u.tail, tail)
		fn = callee
	}
	return nil
}

// c05ArchHelper: the architecture byte written by writeDefMesg is extract #0 of h(e.arch), h a
// loop-free module function with path terms {order == LittleEndian -> (0, true); order ==
// BigEndian -> (1, true); otherwise -> (_, false)}, and the write is under the ok flag.
func c05ArchHelper(c *Ctx) (map[string]string, bool) {
	fn := c.ssaFn(c.fn(c.fit, "encoder.writeDefMesg"))
	if fn == nil {
		return nil, false
	}
	for _, ci := range allCalls(fn) {
		f := ci.Common().StaticCallee()
		if f == nil || f.String() != "encoding/binary.Write" {
			continue
		}
		arg := ci.Common().Args[2]
		if mi, ok := arg.(*ssa.MakeInterface); ok {
			arg = mi.X
		}
		ex, ok := arg.(*ssa.Extract)
		if !ok || ex.Index != 0 {
			continue
		}
		call, ok := ex.Tuple.(*ssa.Call)
		if !ok || call.Common().StaticCallee() == nil || len(call.Common().Args) != 1 || !strings.HasSuffix(pathOf(call.Common().Args[0]), ".arch") {
			continue
		}
		var okFlag ssa.Value
		for _, ref := range *call.Referrers() {
			if e, isE := ref.(*ssa.Extract); isE && e.Index == 1 {
				okFlag = e
			}
		}
		if okFlag == nil || !domByBoolEdge(fn, ci.Block(), true, func(v ssa.Value) bool { return v == okFlag }) {
			return nil, false
		}
		o := symPaths(call.Common().StaticCallee(), nil, 1)
		if o.why != "" || len(o.paths) != 3 {
			return nil, false
		}
		m := map[string]string{}
		const isLE, isBE = "(== (iface *g:LittleEndian) p0)", "(== (iface *g:BigEndian) p0)"
		for _, p := range o.paths {
			if len(p.rets) != 2 {
				return nil, false
			}
			cs := strings.Join(p.conds, " ")
			switch {
			case p.rets[1] == "false":
				if cs != "F:"+isBE+" F:"+isLE {
					return nil, false
				}
			case p.rets[1] == "true" && cs == "T:"+isLE:
				m["binary.LittleEndian"] = p.rets[0]
			case p.rets[1] == "true" && (cs == "F:"+isLE+" T:"+isBE || cs == "T:"+isBE):
				m["binary.BigEndian"] = p.rets[0]
			default:
				return nil, false
			}
		}
		return m, m["binary.LittleEndian"] == "0" && m["binary.BigEndian"] == "1"
	}
	return nil, false
}

// encodeDefCovers: the definition under which encodeFile writes the records of a list covers
// every message of that list. Two recognised ways:
//
//	(A) merged: the definition is built once per list by a counted loop over k = 0 .. v.Len()-1 of
//	    the same list value v, which calls getEncodeMesgDef on v.Index(k) and puts every one of its
//	    fields into a map M; the definition's field list is then rebuilt from a range over M;
//	(B) per message: the definition is getEncodeMesgDef of the very message being written.
//
// A definition carried over from an earlier message (written again only "when something
// changed") is neither: a field that only a later message has is then silently not written.
func encodeDefCovers(c *Ctx, r *Report, rule string) {
	fns := c.listWriterFns()
	if len(fns) == 0 {
		r.fail(rule, "encodeFile/definition-covers-list", "", "no function on Encode's call tree writes the records of a list (writeMesg inside a loop)")
		return
	}
	for _, fn := range fns {
		encodeDefCoversIn(c, r, rule, fn)
	}
}

// listWriterFns: functions reachable from Encode that call writeMesg inside a loop (the list
// writer, wherever a refactoring has put it).
func (c *Ctx) listWriterFns() []*ssa.Function {
	enc := c.ssaFn(c.fn(c.fit, "Encode"))
	if enc == nil {
		return nil
	}
	var out []*ssa.Function
	for _, fn := range c.reach([]*ssa.Function{enc}).module() {
		if fnPkgPath(fn) != modPath {
			continue
		}
		for _, ci := range allCalls(fn) {
			if f := ci.Common().StaticCallee(); f != nil && f.Name() == "writeMesg" && inLoop(ci.Block()) {
				out = append(out, fn)
				break
			}
		}
	}
	return out
}

func encodeDefCoversIn(c *Ctx, r *Report, rule string, fn *ssa.Function) {
	isCallTo := func(v ssa.Value, name string) *ssa.Call {
		call, ok := v.(*ssa.Call)
		if !ok || call.Common().StaticCallee() == nil {
			return nil
		}
		f := call.Common().StaticCallee()
		if f.Name() == name || f.String() == name {
			return call
		}
		return nil
	}
	// element(v, idx): reflect.Indirect((reflect.Value).Index(v, idx)) or the Index call itself
	element := func(x ssa.Value) (list ssa.Value, idx ssa.Value, ok bool) {
		if ind := isCallTo(x, "reflect.Indirect"); ind != nil {
			x = ind.Common().Args[0]
		}
		if ix := isCallTo(x, "(reflect.Value).Index"); ix != nil {
			return ix.Common().Args[0], ix.Common().Args[1], true
		}
		return nil, nil, false
	}
	n := 0
	for _, ci := range allCalls(fn) {
		f := ci.Common().StaticCallee()
		if f == nil || f.Name() != "writeMesg" || len(ci.Common().Args) != 3 || !inLoop(ci.Block()) {
			continue
		}
		n++
		mesg, defv := ci.Common().Args[1], ci.Common().Args[2]
		list, _, okEl := element(mesg)
		if !okEl {
			r.undecided(rule, "encodeFile/definition-covers-list", c.pos(ci.Pos()), "the message written is not an element of a list value")
			continue
		}
		// sources of the definition: direct value, or the non-nil stores into its cell
		var sources []ssa.Value
		if ld, ok := defv.(*ssa.UnOp); ok && ld.Op == token.MUL {
			if cell, ok := ld.X.(*ssa.Alloc); ok {
				for _, ref := range *cell.Referrers() {
					if st, ok := ref.(*ssa.Store); ok && st.Addr == ssa.Value(cell) && !isNilConst(st.Val) {
						sources = append(sources, st.Val)
					}
				}
			}
		} else {
			sources = []ssa.Value{defv}
		}
		// a definition kept in a plain local (no closure captures it) is a merge of its assignments
		carried := false
		{
			var flat []ssa.Value
			seenPhi := map[*ssa.Phi]bool{}
			seenCell := map[*ssa.Alloc]bool{}
			var expand func(v ssa.Value)
			expand = func(v ssa.Value) {
				if phi, isPhi := v.(*ssa.Phi); isPhi {
					if seenPhi[phi] {
						return
					}
					seenPhi[phi] = true
					// a merge at a loop header carries the definition of an earlier iteration
					for _, p := range phi.Block().Preds {
						if phi.Block().Dominates(p) {
							carried = true
						}
					}
					for _, e := range phi.Edges {
						expand(e)
					}
					return
				}
				if ld, isLd := v.(*ssa.UnOp); isLd && ld.Op == token.MUL {
					if cell, isCell := ld.X.(*ssa.Alloc); isCell && !seenCell[cell] {
						seenCell[cell] = true
						for _, ref := range *cell.Referrers() {
							if st, ok := ref.(*ssa.Store); ok && st.Addr == ssa.Value(cell) {
								expand(st.Val)
							}
						}
						return
					}
				}
				if !isNilConst(v) {
					flat = append(flat, v)
				}
			}
			for _, s := range sources {
				expand(s)
			}
			sources = flat
		}
		why := ""
		ok := len(sources) > 0
		mode := ""
		for _, src := range sources {
			g := isCallTo(src, "getEncodeMesgDef")
			if g == nil {
				// a helper that is given the list and returns the merged definition
				if hc, isCall := src.(*ssa.Call); isCall && hc.Common().StaticCallee() != nil && fnPkgPath(hc.Common().StaticCallee()) == modPath {
					helper := hc.Common().StaticCallee()
					pidx := -1
					for i, a := range hc.Common().Args {
						if a == list {
							pidx = i
						}
					}
					if pidx >= 0 && mergedOverParam(helper, helper.Params[pidx]) {
						mode = "merged over the whole list by " + helper.Name()
						continue
					}
				}
				ok, why = false, "the definition comes from "+stripAddrs(pathOf(src))+", not from getEncodeMesgDef (or a helper that merges the definitions of the whole list)"
				break
			}
			arg := g.Common().Args[0]
			if arg == mesg && (g.Block() == ci.Block() || g.Block().Dominates(ci.Block())) {
				if carried {
					ok, why = false, "the definition in force when a record is written can be the one computed for an earlier message of the list (it is carried round the loop and replaced only under a condition)"
					break
				}
				mode = "per message"
				continue // (B)
			}
			// (A): a counted loop over the whole list
			l2, k, okEl2 := element(arg)
			if !okEl2 || l2 != list {
				ok, why = false, "the definition is computed from "+stripAddrs(pathOf(arg))+", which is neither the message being written nor an element of the same list"
				break
			}
			phi, isPhi := k.(*ssa.Phi)
			full := false
			if isPhi && len(phi.Edges) == 2 {
				var init, step ssa.Value
				for i, e := range phi.Edges {
					if phi.Block().Dominates(phi.Block().Preds[i]) {
						step = e
					} else {
						init = e
					}
				}
				k0, isK := init.(*ssa.Const)
				inc, isInc := step.(*ssa.BinOp)
				if isK && k0.Value != nil && k0.Int64() == 0 && isInc && inc.Op == token.ADD && inc.X == ssa.Value(phi) {
					if one, ok := inc.Y.(*ssa.Const); ok && one.Int64() == 1 {
						if ifi, ok := phi.Block().Instrs[len(phi.Block().Instrs)-1].(*ssa.If); ok {
							if cond, ok := ifi.Cond.(*ssa.BinOp); ok && cond.Op == token.LSS && cond.X == ssa.Value(phi) {
								if ln := isCallTo(cond.Y, "(reflect.Value).Len"); ln != nil && ln.Common().Args[0] == list {
									full = true
								}
							}
						}
					}
				}
			}
			if !full {
				ok, why = false, "the loop that collects the fields does not run k = 0 .. Len()-1 over the list being written"
				break
			}
			// every field of each per-message definition goes into a map, and the final list comes from ranging over it
			var m ssa.Value
			body, _ := loopBody(phi.Block())
			for b := range body {
				for _, ins := range b.Instrs {
					if mu, isMU := ins.(*ssa.MapUpdate); isMU {
						m = mu.Map
					}
				}
			}
			ranged, rebuilt := false, false
			for _, b := range fn.Blocks {
				for _, ins := range b.Instrs {
					if rg, isR := ins.(*ssa.Range); isR && m != nil && rg.X == m {
						ranged = true
					}
					if st, isS := ins.(*ssa.Store); isS && strings.HasSuffix(pathOf(st.Addr), ".fields") {
						if _, isApp := st.Val.(*ssa.Call); isApp && ranged {
							rebuilt = true
						}
					}
				}
			}
			if m == nil || !ranged || !rebuilt {
				ok, why = false, "the fields collected over the list are not merged into one field list (map filled in the loop, definition rebuilt from a range over it)"
				break
			}
			mode = "merged over the whole list"
		}
		r.check(ok, rule, "encodeFile/definition-covers-list", c.pos(ci.Pos()), "the definition used for a list's records is "+mode, "a record of a list can be written under a definition that does not cover it: "+why+" — fields that only some messages of the list have set are silently dropped (or read back as another field)")
	}
	if n == 0 {
		r.fail(rule, "encodeFile/definition-covers-list", c.pos(fn.Pos()), "no writeMesg call in a loop found in "+fn.Name())
	}
}

// mergedOverParam: g runs k = 0 .. Len(p)-1 over its parameter p, calls getEncodeMesgDef on
// Index(p, k), puts every field of each result into a map, rebuilds a field list from a range over
// that map and returns the definition (or nil).
func mergedOverParam(g *ssa.Function, p *ssa.Parameter) bool {
	var loopPhi *ssa.Phi
	var m ssa.Value
	sawGet := false
	for _, b := range g.Blocks {
		for _, ins := range b.Instrs {
			call, ok := ins.(*ssa.Call)
			if !ok || call.Common().StaticCallee() == nil || call.Common().StaticCallee().Name() != "getEncodeMesgDef" {
				continue
			}
			x := call.Common().Args[0]
			if ind, ok := x.(*ssa.Call); ok && ind.Common().StaticCallee() != nil && ind.Common().StaticCallee().String() == "reflect.Indirect" {
				x = ind.Common().Args[0]
			}
			ix, ok := x.(*ssa.Call)
			if !ok || ix.Common().StaticCallee() == nil || ix.Common().StaticCallee().String() != "(reflect.Value).Index" || ix.Common().Args[0] != ssa.Value(p) {
				continue
			}
			phi, ok := ix.Common().Args[1].(*ssa.Phi)
			if !ok || len(phi.Edges) != 2 {
				continue
			}
			okLoop := false
			for i, e := range phi.Edges {
				k0, isK := e.(*ssa.Const)
				inc, isInc := phi.Edges[1-i].(*ssa.BinOp)
				if isK && k0.Value != nil && k0.Int64() == 0 && isInc && inc.Op == token.ADD && inc.X == ssa.Value(phi) {
					if one, ok := inc.Y.(*ssa.Const); ok && one.Int64() == 1 {
						if ifi, ok := phi.Block().Instrs[len(phi.Block().Instrs)-1].(*ssa.If); ok {
							if cond, ok := ifi.Cond.(*ssa.BinOp); ok && cond.Op == token.LSS && cond.X == ssa.Value(phi) {
								if ln, ok := cond.Y.(*ssa.Call); ok && ln.Common().StaticCallee() != nil && ln.Common().StaticCallee().String() == "(reflect.Value).Len" && ln.Common().Args[0] == ssa.Value(p) {
									okLoop = true
								}
							}
						}
					}
				}
			}
			if okLoop {
				sawGet = true
				loopPhi = phi
			}
		}
	}
	if !sawGet {
		return false
	}
	body, _ := loopBody(loopPhi.Block())
	for b := range body {
		for _, ins := range b.Instrs {
			if mu, ok := ins.(*ssa.MapUpdate); ok {
				m = mu.Map
			}
		}
	}
	ranged, rebuilt := false, false
	for _, b := range g.Blocks {
		for _, ins := range b.Instrs {
			if rg, ok := ins.(*ssa.Range); ok && m != nil && rg.X == m {
				ranged = true
			}
			if st, ok := ins.(*ssa.Store); ok && strings.HasSuffix(pathOf(st.Addr), ".fields") {
				if _, isApp := st.Val.(*ssa.Call); isApp && ranged {
					rebuilt = true
				}
			}
		}
	}
	return m != nil && ranged && rebuilt
}

// encodeValueWrites reads encoder.encodeValue through its path terms (helpers inlined, so a write
// wrapper or a conversion helper makes no difference): every success path performs exactly one
// binary.Write; per path the kind selected by the Kind() tests and the three arguments.
type evWrite struct {
	kind         int
	w, arch, val string
	stringBranch bool
	conds        []string
}

func (c *Ctx) encodeValueWrites() ([]evWrite, string) {
	fn := c.ssaFn(c.fn(c.fit, "encoder.encodeValue"))
	if fn == nil {
		return nil, "encoder.encodeValue not found"
	}
	o := symPathsOpaque(fn, 3, "encodeTime", "Kind", "BaseType", "encodeString")
	if o.why != "" {
		return nil, "not recognised: " + o.why
	}
	var out []evWrite
	for _, p := range o.paths {
		if len(p.rets) != 1 || p.rets[0] != "nil" {
			continue // error paths
		}
		w := evWrite{kind: -1, conds: p.conds}
		for _, cnd := range p.conds {
			if strings.HasPrefix(cnd, "T:(== (call types.Kind ") {
				parts := symSplit(cnd[3 : len(cnd)-1])
				if len(parts) == 3 {
					fmt.Sscanf(parts[2], "%d", &w.kind)
				}
			}
			if strings.HasPrefix(cnd, "T:(is:string ") {
				w.stringBranch = true
			}
		}
		n := 0
		for _, cl := range p.calls {
			if !strings.HasPrefix(cl, "(call binary.Write ") {
				continue
			}
			n++
			parts := symSplit(cl[1 : len(cl)-1])
			if len(parts) != 5 {
				return nil, "binary.Write with unexpected arguments: " + cl
			}
			w.w, w.arch, w.val = parts[2], parts[3], parts[4]
		}
		if n != 1 {
			return nil, fmt.Sprintf("a success path of encodeValue performs %d binary.Write calls (conditions %v)", n, p.conds)
		}
		if w.kind < 0 {
			return nil, fmt.Sprintf("a success path is not selected by a Kind() test (conditions %v)", p.conds)
		}
		out = append(out, w)
	}
	if len(out) == 0 {
		return nil, "no success path"
	}
	return out, ""
}

// asIfChain views a statement as a chain of guarded arms: an if / else-if chain, a tagless
// switch (`switch { case A: ... }`) or a tagged switch (`switch x { case v: ... }`, arm condition
// x == v). Arms are in source order, which is their evaluation order in all three forms; a default
// or final else is returned separately. Multi-value cases and fallthrough are not a chain.
type ifArm struct {
	cond ast.Expr
	body []ast.Stmt
}

func asIfChain(s ast.Stmt) (arms []ifArm, elseBody []ast.Stmt, ok bool) {
	switch x := s.(type) {
	case *ast.IfStmt:
		for cur := x; cur != nil; {
			if cur.Init != nil {
				return nil, nil, false
			}
			arms = append(arms, ifArm{cur.Cond, cur.Body.List})
			switch e := cur.Else.(type) {
			case nil:
				cur = nil
			case *ast.IfStmt:
				cur = e
			case *ast.BlockStmt:
				elseBody = e.List
				cur = nil
			default:
				return nil, nil, false
			}
		}
		return arms, elseBody, true
	case *ast.SwitchStmt:
		if x.Init != nil {
			return nil, nil, false
		}
		for i, cl := range x.Body.List {
			cc := cl.(*ast.CaseClause)
			for _, st := range cc.Body {
				if br, isBr := st.(*ast.BranchStmt); isBr && br.Tok == token.FALLTHROUGH {
					return nil, nil, false
				}
			}
			if cc.List == nil {
				if i != len(x.Body.List)-1 {
					return nil, nil, false // a default that is not last still runs last, but keep it simple
				}
				elseBody = cc.Body
				continue
			}
			if len(cc.List) != 1 {
				return nil, nil, false
			}
			cond := cc.List[0]
			if x.Tag != nil {
				cond = &ast.BinaryExpr{X: x.Tag, Op: token.EQL, Y: cc.List[0]}
			}
			arms = append(arms, ifArm{cond, cc.Body})
		}
		return arms, elseBody, true
	}
	return nil, nil, false
}
