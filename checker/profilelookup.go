package main

import (
	"go/token"

	"golang.org/x/tools/go/ssa"
)

// The profile lookup, however it is spelled: getField(msg, num) returning (row, found), or a
// module wrapper around it that returns the row or nil. Rules that need "the row looked up for
// (msg, num)" or "the row was found" go through these two functions instead of matching the callee
// by name at each site.

type rowLookup struct {
	call   *ssa.Call // the call at the use site (getField or the wrapper)
	msgArg ssa.Value // the caller's values handed down as getField's message number ...
	numArg ssa.Value // ... and field number
}

// rowOf: v is the row pointer obtained from the profile lookup.
func rowOf(v ssa.Value) (*rowLookup, bool) {
	switch x := v.(type) {
	case *ssa.Extract:
		call, ok := x.Tuple.(*ssa.Call)
		if !ok || x.Index != 0 {
			return nil, false
		}
		if f := call.Common().StaticCallee(); f != nil && f.Name() == "getField" && fnPkgPath(f) == modPath && len(call.Common().Args) == 2 {
			return &rowLookup{call: call, msgArg: call.Common().Args[0], numArg: call.Common().Args[1]}, true
		}
	case *ssa.Call:
		f := x.Common().StaticCallee()
		if f == nil || fnPkgPath(f) != modPath || len(f.Blocks) == 0 || f.Signature.Results().Len() != 1 {
			return nil, false
		}
		// wrapper: exactly one getField call on its parameters; every return yields nil or that call's row
		var inner *ssa.Call
		for _, b := range f.Blocks {
			for _, ins := range b.Instrs {
				switch y := ins.(type) {
				case *ssa.Call:
					g := y.Common().StaticCallee()
					if g != nil && g.Name() == "getField" && fnPkgPath(g) == modPath && inner == nil {
						inner = y
					} else {
						return nil, false
					}
				case *ssa.Store, *ssa.MapUpdate, *ssa.Panic, *ssa.Go, *ssa.Defer:
					return nil, false
				}
			}
		}
		if inner == nil {
			return nil, false
		}
		for _, b := range f.Blocks {
			ret, ok := b.Instrs[len(b.Instrs)-1].(*ssa.Return)
			if !ok {
				continue
			}
			rv := ret.Results[0]
			if k, isC := rv.(*ssa.Const); isC && k.Value == nil {
				continue
			}
			if ex, isE := rv.(*ssa.Extract); isE && ex.Tuple == ssa.Value(inner) && ex.Index == 0 {
				continue
			}
			return nil, false
		}
		arg := func(a ssa.Value) ssa.Value {
			p, ok := a.(*ssa.Parameter)
			if !ok {
				return a // a constant handed to getField by the wrapper itself
			}
			for i, q := range f.Params {
				if q == p && i < len(x.Common().Args) {
					return x.Common().Args[i]
				}
			}
			return nil
		}
		m, n := arg(inner.Common().Args[0]), arg(inner.Common().Args[1])
		if m == nil || n == nil {
			return nil, false
		}
		return &rowLookup{call: x, msgArg: m, numArg: n}, true
	}
	return nil, false
}

// foundCond: cond says whether a profile row was found: the lookup's second result, or a nil test of
// the row. trueMeansFound gives the polarity.
func foundCond(cond ssa.Value) (lk *rowLookup, trueMeansFound bool, ok bool) {
	if ex, isE := cond.(*ssa.Extract); isE && ex.Index == 1 {
		if call, isC := ex.Tuple.(*ssa.Call); isC {
			if f := call.Common().StaticCallee(); f != nil && f.Name() == "getField" && fnPkgPath(f) == modPath && len(call.Common().Args) == 2 {
				return &rowLookup{call: call, msgArg: call.Common().Args[0], numArg: call.Common().Args[1]}, true, true
			}
		}
		return nil, false, false
	}
	if x, nonNilOnTrue, isNil := nilTest(cond); isNil {
		if lk, ok := rowOf(x); ok {
			return lk, nonNilOnTrue, true
		}
	}
	if u, isU := cond.(*ssa.UnOp); isU && u.Op == token.NOT {
		lk, t, ok := foundCond(u.X)
		return lk, !t, ok
	}
	return nil, false, false
}

// domByFound: b is reached only with the row found (want true) / not found (want false), for the
// lookup that yielded row (nil: any lookup).
func domByFound(fn *ssa.Function, b *ssa.BasicBlock, want bool, row ssa.Value) bool {
	var target *rowLookup
	if row != nil {
		target, _ = rowOf(row)
	}
	for _, a := range fn.Blocks {
		if len(a.Instrs) == 0 {
			continue
		}
		ifi, ok := a.Instrs[len(a.Instrs)-1].(*ssa.If)
		if !ok {
			continue
		}
		lk, trueMeansFound, ok := foundCond(ifi.Cond)
		if !ok {
			continue
		}
		if target != nil && lk.call != target.call {
			continue
		}
		succ := a.Succs[0]
		if trueMeansFound != want {
			succ = a.Succs[1]
		}
		if len(succ.Preds) == 1 && succ.Dominates(b) {
			return true
		}
	}
	return false
}
