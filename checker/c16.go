package main

import (
	"fmt"
	"go/ast"
	"go/token"
	"go/types"
	"strings"

	"golang.org/x/tools/go/ssa"
)

func init() {
	register(&propDef{
		id: "C16", level: "other", run: runC16,
		explanation: "Decided: (R1) each With* option closure stores exactly one field of decodeOptions; (R2) control non-interference: every instruction that is control-dependent on a branch whose condition derives from d.opts.* or d.debug is in the allow-list {Logger method invoke and the construction of its arguments, pure reads, store to d.debug, creation/update of the unknown-item maps, defer of the two report handlers, jumps/branches}; no return, panic, other store or decoder call depends on them, and no phi merges different values across such a branch; (R3) data non-interference: values loaded from d.opts.*/d.debug flow only into branch conditions, nil-compares and the logger receiver; (R4) counter guards: the unknown-message increment is dominated by the !known edge, the unknown-field increment by the known-message edge and the !found edge, once per record/field with the (message, field) key; (R5) handlers are deferred before parsing starts, copy every map entry and sort by (message, field). NOT decided: 'account for every record completed before the failure' as a count (the increment precedes the field reads; the statement tolerates this), nor the behaviour of a user-supplied Logger that panics. (R4, exact) the counter updates are control dependent, on the error-free part of the flow graph, only on known/found/option tests, nil tests and loops; every parsed field definition is kept (every-field-kept).",
		trusted:     []string{"post-dominator/control-dependence computation in checker/c16.go", "Logger implementations do not reach back into the decoder"},
	})
}

// ---- post-dominators / control dependence --------------------------------------------

func (ci *cdInfo) succs(b *ssa.BasicBlock) []*ssa.BasicBlock {
	if ci.keep == nil {
		return b.Succs
	}
	var out []*ssa.BasicBlock
	for _, s := range b.Succs {
		if ci.keep[s] {
			out = append(out, s)
		}
	}
	return out
}

type cdInfo struct {
	keep  map[*ssa.BasicBlock]bool
	fn    *ssa.Function
	pdom  map[*ssa.BasicBlock]map[*ssa.BasicBlock]bool // pdom[b] = set of blocks that post-dominate b (incl. b)
	exits []*ssa.BasicBlock
}

func computePostDom(fn *ssa.Function) *cdInfo { return computePostDomKeep(fn, nil) }

// computePostDomKeep: post-dominators of the sub-graph induced by keep (nil = whole function). Used
// with keep = "an error-free return is still reachable": error exits and panics then do not make
// everything behind them control dependent on the test that guards them.
func computePostDomKeep(fn *ssa.Function, keep map[*ssa.BasicBlock]bool) *cdInfo {
	ci := &cdInfo{fn: fn, pdom: map[*ssa.BasicBlock]map[*ssa.BasicBlock]bool{}, keep: keep}
	all := map[*ssa.BasicBlock]bool{}
	for _, b := range fn.Blocks {
		if keep == nil || keep[b] {
			all[b] = true
		}
	}
	for _, b := range fn.Blocks {
		if !all[b] {
			continue
		}
		if len(ci.succs(b)) == 0 {
			ci.exits = append(ci.exits, b)
			ci.pdom[b] = map[*ssa.BasicBlock]bool{b: true}
		} else {
			s := map[*ssa.BasicBlock]bool{}
			for k := range all {
				s[k] = true
			}
			ci.pdom[b] = s
		}
	}
	changed := true
	for changed {
		changed = false
		for i := len(fn.Blocks) - 1; i >= 0; i-- {
			b := fn.Blocks[i]
			if !all[b] || len(ci.succs(b)) == 0 {
				continue
			}
			var inter map[*ssa.BasicBlock]bool
			for _, s := range ci.succs(b) {
				if inter == nil {
					inter = map[*ssa.BasicBlock]bool{}
					for k := range ci.pdom[s] {
						inter[k] = true
					}
				} else {
					for k := range inter {
						if !ci.pdom[s][k] {
							delete(inter, k)
						}
					}
				}
			}
			inter[b] = true
			if len(inter) != len(ci.pdom[b]) {
				ci.pdom[b] = inter
				changed = true
			}
		}
	}
	return ci
}

// controlled: blocks control-dependent on the branch at the end of block a.
func (ci *cdInfo) controlled(a *ssa.BasicBlock) map[*ssa.BasicBlock]bool {
	out := map[*ssa.BasicBlock]bool{}
	for _, s := range ci.succs(a) {
		for x := range ci.pdom[s] {
			// x post-dominates s; control dependent unless x strictly post-dominates a
			if x != a && ci.pdom[a][x] {
				continue
			}
			if x == a {
				continue
			}
			out[x] = true
		}
	}
	return out
}

// ---- the property ---------------------------------------------------------------------

func optPath(p string) bool {
	return strings.Contains(p, ".opts.") || strings.HasSuffix(p, ".opts") || strings.HasSuffix(p, ".debug")
}

func infoMapPath(p string) bool {
	return strings.HasSuffix(p, ".unknownFields") || strings.HasSuffix(p, ".unknownMessages")
}

func runC16(c *Ctx, r *Report) {
	c16Options(c, r)
	// counts are per file: per-file decoder state (perfile.go)
	perFileRule(c, r, "C16-R4-per-file-counts", []string{"unknownFields", "unknownMessages"}, "the unknown-message and unknown-field counts of a chained file include those of the files before it")

	roots, _ := c.rootFuncs(decodeRoots)
	ri := c.reach(roots)
	nBranches, nControlled := 0, 0
	for _, fn := range ri.module() {
		if fnPkgPath(fn) != modPath || len(fn.Params) == 0 {
			continue
		}
		// only methods/functions that can see a decoder
		usesDecoder := false
		for _, p := range fn.Params {
			if strings.Contains(p.Type().String(), modPath+".decoder") {
				usesDecoder = true
			}
		}
		if !usesDecoder && fn.Name() != "Decode" && fn.Name() != "DecodeChained" {
			continue
		}
		nb, nc := c16Function(c, r, fn)
		nBranches += nb
		nControlled += nc
	}
	r.set("option_dependent_branches", nBranches)
	r.set("controlled_instructions_checked", nControlled)
	r.need("option-dependent branches", nBranches, 10)

	c16Counters(c, r)
	c16Handlers(c, r)
}

func c16Options(c *Ctx, r *Report) {
	info := c.fit.TypesInfo
	n := 0
	sc := c.fit.Types.Scope()
	optT := sc.Lookup("DecodeOption")
	if optT == nil {
		r.fail("C16-R1-options-are-flags", "DecodeOption", "", "type DecodeOption not found")
		return
	}
	for _, name := range sc.Names() {
		fn, ok := sc.Lookup(name).(*types.Func)
		if !ok {
			continue
		}
		sig := fn.Type().(*types.Signature)
		if sig.Results().Len() != 1 || !types.Identical(sig.Results().At(0).Type(), optT.Type()) {
			continue
		}
		n++
		fd := c.decl(fn)
		ok1 := false
		why := "option constructor is not `return func(o *decodeOptions) { o.<field> = <value> }`"
		if fd != nil && len(fd.Body.List) == 1 {
			if rs, ok := fd.Body.List[0].(*ast.ReturnStmt); ok && len(rs.Results) == 1 {
				if fl, ok := rs.Results[0].(*ast.FuncLit); ok && len(fl.Body.List) == 1 {
					if as, ok := fl.Body.List[0].(*ast.AssignStmt); ok && len(as.Lhs) == 1 && as.Tok == token.ASSIGN {
						if sel, ok := as.Lhs[0].(*ast.SelectorExpr); ok {
							if p := identOf(sel.X); p != nil && info.Uses[p] == info.Defs[fl.Type.Params.List[0].Names[0]] {
								ok1 = true
								why = "stores exactly o." + sel.Sel.Name
							}
						}
					}
				}
			}
		}
		r.check(ok1, "C16-R1-options-are-flags", name, c.pos(fn.Pos()), why, why)
	}
	r.need("option constructors", n, 4)
}

func c16Function(c *Ctx, r *Report, fn *ssa.Function) (int, int) {
	// tainted values: loads from option paths, closed under operators
	taint := map[ssa.Value]bool{}
	changed := true
	for changed {
		changed = false
		for _, b := range fn.Blocks {
			for _, ins := range b.Instrs {
				v, ok := ins.(ssa.Value)
				if !ok || taint[v] {
					continue
				}
				t := false
				switch n := ins.(type) {
				case *ssa.UnOp:
					if n.Op == token.MUL && optPath(pathOf(n.X)) {
						t = true
					} else if taint[n.X] {
						t = true
					}
				case *ssa.BinOp:
					t = taint[n.X] || taint[n.Y]
				case *ssa.Phi:
					for _, e := range n.Edges {
						if taint[e] {
							t = true
						}
					}
				case *ssa.ChangeInterface:
					t = taint[n.X]
				case *ssa.MakeInterface:
					t = taint[n.X]
				case *ssa.Convert:
					t = taint[n.X]
				case *ssa.ChangeType:
					t = taint[n.X]
				case *ssa.Field:
					t = taint[n.X]
				case *ssa.Extract:
					t = taint[n.Tuple]
				}
				if t {
					taint[v] = true
					changed = true
				}
			}
		}
	}
	fname := fn.String()
	// R3: uses of tainted values
	useIdx := 0
	for v := range taint {
		ins, _ := v.(ssa.Instruction)
		for _, ref := range *v.Referrers() {
			okUse := false
			switch u := ref.(type) {
			case *ssa.If, *ssa.DebugRef:
				okUse = true
			case *ssa.BinOp, *ssa.UnOp, *ssa.Phi, *ssa.ChangeInterface, *ssa.MakeInterface, *ssa.Convert, *ssa.ChangeType, *ssa.Field, *ssa.Extract:
				okUse = true // stays inside the tainted closure, judged where it ends
			case *ssa.Call:
				cc := u.Common()
				if cc.IsInvoke() && cc.Value == v && strings.HasSuffix(cc.Value.Type().String(), ".Logger") {
					okUse = true
				}
			case *ssa.Store:
				// copying options wholesale (d.opts = ...) is not present; storing a tainted value is a leak
				okUse = false
			}
			if !okUse {
				useIdx++
				pos := ""
				if ins != nil {
					pos = c.pos(ref.Pos())
				}
				r.fail("C16-R3-data-noninterference", fmt.Sprintf("%s/%s->%T", fname, v.Name(), ref), pos, fmt.Sprintf("a value read from the decode options (%s) flows into %T: option values may only steer logging and unknown-item bookkeeping", pathOf(v), ref))
			}
		}
	}
	// R2: control dependence
	ci := computePostDom(fn)
	nb, nc := 0, 0
	for _, a := range fn.Blocks {
		if len(a.Instrs) == 0 {
			continue
		}
		ifi, ok := a.Instrs[len(a.Instrs)-1].(*ssa.If)
		if !ok || !taint[ifi.Cond] {
			continue
		}
		nb++
		// transitively: a test nested under the option test is itself under the option
		ctl := ci.controlled(a)
		for changed := true; changed; {
			changed = false
			for blk := range ctl {
				if len(blk.Instrs) == 0 {
					continue
				}
				if _, isIf := blk.Instrs[len(blk.Instrs)-1].(*ssa.If); !isIf {
					continue
				}
				for x := range ci.controlled(blk) {
					if !ctl[x] {
						ctl[x] = true
						changed = true
					}
				}
			}
		}
		key0 := fmt.Sprintf("%s/branch#%d@%s", fname, nb, pathOf(ifi.Cond))
		bad := ""
		for blk := range ctl {
			for _, ins := range blk.Instrs {
				nc++
				if why := c16Allowed(c, ins, taint); why != "" {
					bad = fmt.Sprintf("%s at %s", why, c.pos(ins.Pos()))
				}
			}
		}
		// phis at the join: edges coming out of the controlled region must agree
		for _, j := range fn.Blocks {
			for _, ins := range j.Instrs {
				phi, ok := ins.(*ssa.Phi)
				if !ok {
					break
				}
				if ctl[j] {
					continue
				}
				var vals []ssa.Value
				for i, p := range j.Preds {
					if ctl[p] || p == a {
						vals = append(vals, phi.Edges[i])
					}
				}
				for i := 1; i < len(vals); i++ {
					if vals[i] != vals[0] && !(isConstEq(vals[i], vals[0])) {
						bad = fmt.Sprintf("variable %s takes different values depending on an option-dependent branch (phi at %s)", phi.Comment, c.pos(phi.Pos()))
					}
				}
				// a single controlled edge merging with uncontrolled ones
				if len(vals) >= 1 {
					for i, p := range j.Preds {
						if !(ctl[p] || p == a) && phi.Edges[i] != vals[0] && !isConstEq(phi.Edges[i], vals[0]) && reachableFrom(a, p, j) {
							bad = fmt.Sprintf("variable %s takes different values depending on an option-dependent branch (phi at %s)", phi.Comment, c.pos(phi.Pos()))
						}
					}
				}
			}
		}
		if bad == "" {
			r.ok("C16-R2-control-noninterference", key0, c.pos(ifi.Cond.Pos()), fmt.Sprintf("%d controlled blocks contain only logging / bookkeeping", len(ctl)))
		} else {
			r.fail("C16-R2-control-noninterference", key0, c.pos(ifi.Cond.Pos()), "a branch on the decode options controls more than logging and unknown-item bookkeeping: "+bad)
		}
	}
	return nb, nc
}

func isConstEq(a, b ssa.Value) bool {
	ka, ok1 := a.(*ssa.Const)
	kb, ok2 := b.(*ssa.Const)
	if !ok1 || !ok2 {
		return false
	}
	if ka.Value == nil || kb.Value == nil {
		return ka.Value == nil && kb.Value == nil
	}
	return ka.Value.ExactString() == kb.Value.ExactString()
}

func reachableFrom(a, p, stop *ssa.BasicBlock) bool {
	seen := map[*ssa.BasicBlock]bool{}
	q := append([]*ssa.BasicBlock{}, a.Succs...)
	for len(q) > 0 {
		x := q[0]
		q = q[1:]
		if x == p {
			return true
		}
		if seen[x] || x == stop {
			continue
		}
		seen[x] = true
		q = append(q, x.Succs...)
	}
	return false
}

// c16Allowed returns "" if the instruction may depend on an option, else a reason.
func c16Allowed(c *Ctx, ins ssa.Instruction, taint map[ssa.Value]bool) string {
	switch n := ins.(type) {
	case *ssa.DebugRef, *ssa.Jump, *ssa.If, *ssa.Phi:
		return ""
	case *ssa.Alloc, *ssa.IndexAddr, *ssa.FieldAddr, *ssa.Field, *ssa.Index, *ssa.UnOp, *ssa.BinOp, *ssa.MakeInterface, *ssa.ChangeInterface, *ssa.Slice, *ssa.Convert, *ssa.ChangeType, *ssa.Extract, *ssa.Lookup, *ssa.MakeMap:
		return ""
	case *ssa.Store:
		p := pathOf(n.Addr)
		if strings.HasSuffix(p, ".debug") || infoMapPath(p) {
			return ""
		}
		// stores into the freshly built varargs array of a logger call
		if isLocalAlloc(n.Addr) {
			return ""
		}
		return "store to " + p
	case *ssa.MapUpdate:
		if infoMapPath(strings.TrimPrefix(pathOf(n.Map), "*")) {
			return ""
		}
		return "map update on " + pathOf(n.Map)
	case *ssa.Defer:
		if f := n.Common().StaticCallee(); f != nil && (f.Name() == "handleUnknownFields" || f.Name() == "handleUnknownMessages") {
			return ""
		}
		return "defer of " + calleeName(n.Common())
	case *ssa.Call:
		cc := n.Common()
		if cc.IsInvoke() {
			if strings.HasSuffix(cc.Value.Type().String(), ".Logger") {
				return ""
			}
			if cc.Method.Name() == "Sum16" {
				return "" // pure read of the hash
			}
			return "dynamic call " + cc.Method.Name()
		}
		if b, ok := cc.Value.(*ssa.Builtin); ok && (b.Name() == "len" || b.Name() == "cap") {
			return ""
		}
		return "call to " + calleeName(cc)
	case *ssa.Return:
		return "return"
	case *ssa.Panic:
		return "panic"
	case *ssa.RunDefers:
		return "rundefers"
	}
	return fmt.Sprintf("instruction %T", ins)
}

// ---- R4 -------------------------------------------------------------------------------

func c16Counters(c *Ctx, r *Report) {
	nUpd := 0
	for _, fn := range c.moduleFuncs() {
		if fnPkgPath(fn) != modPath {
			continue
		}
		for _, b := range fn.Blocks {
			for _, ins := range b.Instrs {
				mu, ok := ins.(*ssa.MapUpdate)
				if !ok {
					continue
				}
				mp := strings.TrimPrefix(pathOf(mu.Map), "*")
				if !infoMapPath(mp) {
					continue
				}
				nUpd++
				key := fn.Name() + "/" + mp[strings.LastIndex(mp, ".")+1:]
				pos := c.pos(mu.Pos())
				// increment by one of the same key
				incOK := false
				if bo, ok := mu.Value.(*ssa.BinOp); ok && bo.Op == token.ADD {
					if k, ok := bo.Y.(*ssa.Const); ok && k.Value != nil && k.Int64() == 1 {
						if lk, ok := bo.X.(*ssa.Lookup); ok && lk.Index == mu.Key {
							incOK = true
						}
					}
				}
				if !incOK {
					r.fail("C16-R4-counter-guards", key+"/increment", pos, "counter update is not `m[key]++`")
					continue
				}
				if inLoopWithin(b, fn) > 1 {
					r.fail("C16-R4-counter-guards", key+"/once", pos, "counter update sits in a nested loop: counted more than once per record/field")
				}
				// exactness: the update depends on nothing but what the option documents — message (un)known,
				// field (not) found, the option itself — and on getting there at all (loops, error exits, nil
				// tests of the definition). Any further test leaves some unknown items uncounted.
				if extra := c16ExtraControllers(c, fn, b); extra != "" {
					r.fail("C16-R4-counter-guards", key+"/exact", pos, "the counter update also depends on "+extra+": unknown items for which that test fails are silently left out of the report")
				} else {
					r.ok("C16-R4-counter-guards", key+"/exact", pos, "the update is controlled only by known/found/option tests, loops and error exits")
				}
				if strings.HasSuffix(mp, ".unknownMessages") {
					// dominated by false edge of knownMsg where knownMsg = knownMsgNums[dm.globalMsgNum]; key = dm.globalMsgNum
					okG := domByBoolEdge(fn, b, false, func(v ssa.Value) bool {
						lk, ok := v.(*ssa.Lookup)
						return ok && pathOf(lk.X) == "*fit.knownMsgNums" && pathOf(lk.Index) == pathOf(mu.Key)
					})
					okK := strings.HasSuffix(pathOf(mu.Key), ".globalMsgNum")
					r.check(okG && okK, "C16-R4-counter-guards", key, pos, "incremented only for records whose message number is not in the profile, keyed by that number", "the unknown-message counter is not guarded by `message number not known` for the same number it counts")
				} else {
					// unknownFields: known message AND field not found
					okKnown := domByBoolEdge(fn, b, true, func(v ssa.Value) bool {
						if p, ok := v.(*ssa.Parameter); ok && p.Name() == "knownMsg" {
							return true
						}
						lk, ok := v.(*ssa.Lookup)
						return ok && pathOf(lk.X) == "*fit.knownMsgNums"
					})
					okNotFound := domByFound(fn, b, false, nil)
					// key is unknownField{dm.globalMsgNum, dfield.num}
					keyOK := false
					if ld, ok := mu.Key.(*ssa.UnOp); ok {
						if al, ok := ld.X.(*ssa.Alloc); ok {
							var parts []string
							for _, ref := range *al.Referrers() {
								if fa, ok := ref.(*ssa.FieldAddr); ok {
									for _, r2 := range *fa.Referrers() {
										if st, ok := r2.(*ssa.Store); ok {
											parts = append(parts, pathOf(st.Val))
										}
									}
								}
							}
							joined := strings.Join(parts, "|")
							keyOK = strings.Contains(joined, ".globalMsgNum") && strings.Contains(joined, ".num")
						}
					}
					switch {
					case !okNotFound:
						r.fail("C16-R4-counter-guards", key, pos, "the unknown-field counter is not guarded by `field not found in the profile`")
					case !okKnown:
						r.fail("C16-R4-counter-guards", key, pos, "the unknown-field counter is incremented for records of unknown messages too (not control-dependent on `message is known`): every field of an unknown message is counted as an unknown field of a known message")
					case !keyOK:
						r.fail("C16-R4-counter-guards", key, pos, "the unknown-field counter is not keyed by (message number, field number) of the field at hand")
					default:
						r.ok("C16-R4-counter-guards", key, pos, "incremented only for unlisted fields of known messages, keyed by (message, field)")
					}
				}
			}
		}
	}
	r.need("unknown-item counter updates", nUpd, 2)
	// premise of the field count: every field definition of a definition record reaches the per-record
	// field loop (where unlisted ones are counted): the store of a parsed field definition into
	// fieldDefs runs on every error-free pass through the loop that reads them
	if fn := c.ssaFn(c.fn(c.fit, "decoder.parseDefinitionMessage")); fn != nil {
		n := 0
		for _, b := range fn.Blocks {
			for _, ins := range b.Instrs {
				isStore := false
				switch x := ins.(type) {
				case *ssa.Store:
					if ia, ok := x.Addr.(*ssa.IndexAddr); ok && strings.HasSuffix(strings.TrimPrefix(stripAddrs(pathOf(ia.X)), "*"), ".fieldDefs") {
						isStore = true
					}
					if fa, ok := x.Addr.(*ssa.FieldAddr); ok && isFieldOf(fa, "defmsg", "fieldDefs") {
						if call, isCall := x.Val.(*ssa.Call); isCall {
							if bi, isB := call.Common().Value.(*ssa.Builtin); isB && bi.Name() == "append" {
								isStore = true
							}
						}
					}
				}
				if !isStore || inLoopWithin(b, fn) == 0 {
					continue
				}
				n++
				extra := extraControllers(c, fn, b, false)
				r.check(extra == "", "C16-R4-counter-guards", fmt.Sprintf("parseDefinitionMessage/every-field-kept#%d", n), c.pos(ins.Pos()), "every field definition read from a definition record is kept", "a field definition is kept only if "+extra+": a field left out of the definition is never seen by the per-record loop, so an unlisted field of that kind is missing from the unknown-field report (and its bytes are not skipped)")
			}
		}
		r.need("stores of parsed field definitions", n, 1)
	}
}

// c16ExtraControllers: the conditions block b is (transitively) control dependent on, other than the
// allowed kinds; "" if none.
func c16ExtraControllers(c *Ctx, fn *ssa.Function, b *ssa.BasicBlock) string {
	return extraControllers(c, fn, b, true)
}

// extraControllers: with flags=false not even the known/found/option tests are allowed (the block must
// run on every error-free pass through its loop).
func extraControllers(c *Ctx, fn *ssa.Function, b *ssa.BasicBlock, flags bool) string {
	return extraControllersBy(c, fn, b, flags, nil)
}

// extraControllersBy: with leaf != nil that predicate alone says which conditions are allowed.
func extraControllersBy(c *Ctx, fn *ssa.Function, b *ssa.BasicBlock, flags bool, leaf func(ssa.Value) bool) string {
	var ci *cdInfo
	allowedLeaf := func(v ssa.Value) bool {
		if leaf != nil {
			return leaf(v)
		}
		if !flags {
			_, isC := v.(*ssa.Const)
			return isC
		}
		if _, _, isNil := nilTest(v); isNil {
			return true
		}
		if _, _, ok := foundCond(v); ok {
			return true
		}
		switch x := v.(type) {
		case *ssa.Parameter:
			return x.Name() == "knownMsg" || x.Name() == "compressed"
		case *ssa.Lookup:
			return strings.HasSuffix(pathOf(x.X), ".knownMsgNums")
		case *ssa.Extract:
			// `ok` of a range iterator, comma-ok of a map lookup of the known table
			if _, isNext := x.Tuple.(*ssa.Next); isNext {
				return true
			}
		case *ssa.UnOp:
			if x.Op == token.MUL && optPath(pathOf(x.X)) {
				return true
			}
			if _, ok := knownTableIndex(x); ok {
				return true
			}
		case *ssa.Const:
			return true
		}
		return false
	}
	// blocks from which an error-free return can still be reached: a branch whose other side cannot
	// (error return, panic) only decides whether the function gets any further at all
	canSucceed := map[*ssa.BasicBlock]bool{}
	{
		var q []*ssa.BasicBlock
		for _, ret := range c.successReturns(fn) {
			if !canSucceed[ret.Block()] {
				canSucceed[ret.Block()] = true
				q = append(q, ret.Block())
			}
		}
		for len(q) > 0 {
			x := q[0]
			q = q[1:]
			for _, p := range x.Preds {
				if !canSucceed[p] {
					canSucceed[p] = true
					q = append(q, p)
				}
			}
		}
	}
	if !canSucceed[b] {
		return ""
	}
	ci = computePostDomKeep(fn, canSucceed)
	for _, a := range fn.Blocks {
		if len(a.Instrs) == 0 || !canSucceed[a] {
			continue
		}
		ifi, ok := a.Instrs[len(a.Instrs)-1].(*ssa.If)
		if !ok {
			continue
		}
		ctl := ci.controlled(a)
		for changed := true; changed; {
			changed = false
			for blk := range ctl {
				if len(blk.Instrs) == 0 {
					continue
				}
				if _, isIf := blk.Instrs[len(blk.Instrs)-1].(*ssa.If); !isIf {
					continue
				}
				for x := range ci.controlled(blk) {
					if !ctl[x] {
						ctl[x] = true
						changed = true
					}
				}
			}
		}
		if !ctl[b] {
			continue
		}
		abandons := false
		for _, sx := range a.Succs {
			if !canSucceed[sx] {
				abandons = true
			}
		}
		if abandons {
			continue
		}
		// a loop header's own condition (counter < bound, iterator ok)
		isHdr := false
		for _, p := range a.Preds {
			if a.Dominates(p) {
				isHdr = true
			}
		}
		if isHdr {
			continue
		}
		okAll := true
		for _, t := range []bool{true, false} {
			for _, f := range condFactsOnEdge(ifi.Cond, t, 0) {
				switch f.v.(type) {
				case *ssa.Phi:
					if ph := f.v.(*ssa.Phi); ph.Comment == "&&" || ph.Comment == "||" {
						continue
					}
				case *ssa.UnOp:
					if f.v.(*ssa.UnOp).Op == token.NOT {
						continue
					}
				}
				if !allowedLeaf(f.v) {
					okAll = false
				}
			}
		}
		if !okAll {
			return "`" + stripAddrs(pathOf(ifi.Cond)) + "` (" + c.pos(ifi.Pos()) + ")"
		}
	}
	return ""
}

// inLoopWithin: loop nesting depth of b (number of distinct back-edge headers dominating b that b can reach).
func inLoopWithin(b *ssa.BasicBlock, fn *ssa.Function) int {
	depth := 0
	for _, h := range fn.Blocks {
		if !h.Dominates(b) {
			continue
		}
		// h is a loop header if some pred of h is dominated by h
		isHdr := false
		for _, p := range h.Preds {
			if h.Dominates(p) {
				isHdr = true
			}
		}
		if !isHdr {
			continue
		}
		// b inside the loop if b reaches h
		if b == h || reachableFrom(b, h, nil) {
			depth++
		}
	}
	return depth
}

// domByBoolEdge: block b is dominated by the `want` edge of an If whose condition satisfies pred
// (directly or through a NOT).
func domByBoolEdge(fn *ssa.Function, b *ssa.BasicBlock, want bool, pred func(ssa.Value) bool) bool {
	for _, a := range fn.Blocks {
		if len(a.Instrs) == 0 {
			continue
		}
		ifi, ok := a.Instrs[len(a.Instrs)-1].(*ssa.If)
		if !ok {
			continue
		}
		for k, succ := range a.Succs {
			if len(succ.Preds) != 1 || !succ.Dominates(b) {
				continue
			}
			// what the edge taken says: the test itself, and — when the test is the value of `x && y`
			// / `x || y` computed outside an if (a switch case, an assignment) — its operands
			for _, f := range condFactsOnEdge(ifi.Cond, k == 0, 0) {
				if f.truth == want && pred(f.v) {
					return true
				}
			}
		}
	}
	return false
}

type condFact struct {
	v     ssa.Value
	truth bool
}

// condFactsOnEdge: the boolean values known (with their truth) when cond evaluates to truth: cond
// itself, the operand of a negation, and through the phi go/ssa builds for a short-circuit
// expression used as a value: `x && y` is phi[false, ..., y] — true means the last operand was
// reached and is true, which in turn means every earlier operand was true (the block that
// evaluates y is entered only on their true edges); dually for `||`.
func condFactsOnEdge(cond ssa.Value, truth bool, depth int) []condFact {
	out := []condFact{{cond, truth}}
	if depth > 4 {
		return out
	}
	if u, ok := cond.(*ssa.UnOp); ok && u.Op == token.NOT {
		return append(out, condFactsOnEdge(u.X, !truth, depth+1)...)
	}
	phi, ok := cond.(*ssa.Phi)
	if !ok || (phi.Comment != "&&" && phi.Comment != "||") {
		return out
	}
	isAnd := phi.Comment == "&&"
	if isAnd != truth {
		return out // `x && y` false / `x || y` true: some operand decided it, not known which
	}
	// all operands have the value `truth`
	for i, e := range phi.Edges {
		p := phi.Block().Preds[i]
		if k, isC := e.(*ssa.Const); isC && k.Value != nil {
			// the short-circuit edge: comes from the block that tested an earlier operand; on the path
			// through the last operand that operand had the other outcome
			if ifi, ok := p.Instrs[len(p.Instrs)-1].(*ssa.If); ok {
				out = append(out, condFactsOnEdge(ifi.Cond, truth, depth+1)...)
			}
			continue
		}
		out = append(out, condFactsOnEdge(e, truth, depth+1)...)
	}
	return out
}

// ---- R5 -------------------------------------------------------------------------------

func c16Handlers(c *Ctx, r *Report) {
	info := c.fit.TypesInfo
	// deferred before parsing starts
	if fn := c.ssaFn(c.fn(c.fit, "decoder.decode")); fn != nil {
		var firstParse ssa.Instruction
		for _, ci := range allCalls(fn) {
			if f := ci.Common().StaticCallee(); f != nil && f.Name() == "parseFileIdMsg" {
				firstParse = ci
			}
		}
		for _, h := range []string{"handleUnknownFields", "handleUnknownMessages"} {
			ok := false
			for _, b := range fn.Blocks {
				for _, ins := range b.Instrs {
					df, isD := ins.(*ssa.Defer)
					if !isD || df.Common().StaticCallee() == nil || df.Common().StaticCallee().Name() != h {
						continue
					}
					// the block that decides on the defer dominates the first parse call, and the defer cannot run after it
					if firstParse != nil && b.Idom() != nil && b.Idom().Dominates(firstParse.Block()) && !reachableFrom(firstParse.Block(), b, nil) {
						ok = true
					}
				}
			}
			r.check(ok, "C16-R5-reporting", "decode/defer-"+h, "", "report handler is deferred before parsing starts, so it also runs when decoding fails part-way", "report handler "+h+" is not deferred before the first record is parsed: counts are lost on failure paths")
		}
	}
	for _, h := range []struct{ fn, mapField, dst, sorter string }{
		{"decoder.handleUnknownFields", "unknownFields", "UnknownFields", "unknownFieldSlice"},
		{"decoder.handleUnknownMessages", "unknownMessages", "UnknownMessages", "unknownMessageSlice"},
	} {
		fd := c.decl(c.fn(c.fit, h.fn))
		if fd == nil {
			r.fail("C16-R5-reporting", h.fn, "", "handler not found")
			continue
		}
		okRange, okSort, okCount := false, false, false
		for i, s := range fd.Body.List {
			if rg, ok := s.(*ast.RangeStmt); ok && strings.HasSuffix(exprStr(rg.X), "."+h.mapField) && len(rg.Body.List) == 1 {
				if as, ok := rg.Body.List[0].(*ast.AssignStmt); ok && len(as.Rhs) == 1 && (strings.HasSuffix(exprStr(as.Lhs[0]), "."+h.dst) || assignedLater(fd.Body.List[i+1:], exprStr(as.Lhs[0]), "."+h.dst)) {
					if call, ok := as.Rhs[0].(*ast.CallExpr); ok && len(call.Args) == 2 && exprStr(call.Args[0]) == exprStr(as.Lhs[0]) {
						okRange = true
						// Count: count (the range value)
						if cl, ok := call.Args[1].(*ast.CompositeLit); ok {
							for _, el := range cl.Elts {
								if kv, ok := el.(*ast.KeyValueExpr); ok && exprStr(kv.Key) == "Count" && rg.Value != nil && info.Uses[identOf(kv.Value)] == info.Defs[identOf(rg.Value)] {
									okCount = true
								}
							}
						}
					}
				}
				for _, s2 := range fd.Body.List[i+1:] {
					if isSortOf(info, s2, exprStr(rg.Body.List[0].(*ast.AssignStmt).Lhs[0])) {
						okSort = true
					}
				}
			}
		}
		r.check(okRange && okCount && okSort, "C16-R5-reporting", h.fn, c.pos(fd.Pos()), "copies every map entry with its count and sorts the list", fmt.Sprintf("handler shape: copies every entry=%v, count copied=%v, sorted afterwards=%v", okRange, okCount, okSort))
	}
	// Less functions
	lessOK := func(name string, fields ...string) (bool, string) {
		fd := c.decl(c.fn(c.fit, name+".Less"))
		if fd == nil {
			return false, "Less not found"
		}
		src := exprStrBody(fd)
		for _, f := range fields {
			if !strings.Contains(src, "p[i]."+f+" < p[j]."+f) {
				return false, "Less does not order by " + f
			}
		}
		return true, "orders by " + strings.Join(fields, ", ")
	}
	// Less is decided semantically from its path terms: for every combination of the orderings
	// (<, =, >) of the compared field pairs, the value returned must be that of the lexicographic
	// order on the named fields — whatever tests and branch order the source uses.
	for _, e := range []struct {
		typ    string
		fields []string
	}{{"unknownFieldSlice", []string{"MesgNum", "FieldNum"}}, {"unknownMessageSlice", []string{"MesgNum"}}} {
		ok, why := c16LessLexicographic(c, e.typ, e.fields)
		r.check(ok, "C16-R5-reporting", e.typ+".Less", "", why, e.typ+".Less is not the lexicographic order on "+strings.Join(e.fields, ", ")+": "+why)
	}
	_ = lessOK
}

func exprStrBody(fd *ast.FuncDecl) string {
	var sb strings.Builder
	ast.Inspect(fd.Body, func(n ast.Node) bool {
		if e, ok := n.(ast.Expr); ok {
			if be, ok := e.(*ast.BinaryExpr); ok {
				sb.WriteString(exprStr(be))
				sb.WriteString(";")
			}
		}
		return true
	})
	return sb.String()
}

// c16LessLexicographic: Less(i, j) of the slice type orders by the named struct fields of its
// elements, lexicographically. The function's path terms (symexec.go) are evaluated for each of
// the 3^k sign combinations of (elem[i].F - elem[j].F), F in fields; every comparison term is
// between p0[p1].fN and p0[p2].fN.
func c16LessLexicographic(c *Ctx, typ string, fields []string) (bool, string) {
	fn := c.ssaFn(c.fn(c.fit, typ+".Less"))
	if fn == nil {
		return false, "Less not found"
	}
	o := symPaths(fn, nil, 2)
	if o.why != "" {
		return false, "not recognised: " + o.why
	}
	// field index of each named field in the element struct
	tobj := c.fit.Types.Scope().Lookup(typ)
	if tobj == nil {
		return false, "type not found"
	}
	sl, ok := tobj.Type().Underlying().(*types.Slice)
	if !ok {
		return false, "not a slice type"
	}
	st, ok := sl.Elem().Underlying().(*types.Struct)
	if !ok {
		return false, "elements are not structs"
	}
	var idx []int
	for _, f := range fields {
		k := -1
		for i := 0; i < st.NumFields(); i++ {
			if st.Field(i).Name() == f {
				k = i
			}
		}
		if k < 0 {
			return false, "field " + f + " not found"
		}
		idx = append(idx, k)
	}
	// evaluate "(op A B)" under a sign assignment; A, B of the form *p0[p1].fN / *p0[p2].fN
	evalCmp := func(term string, sign map[int]int) (bool, bool) {
		term = strings.TrimSuffix(strings.TrimPrefix(term, "("), ")")
		parts := strings.Fields(term)
		if len(parts) != 3 {
			return false, false
		}
		side := func(s string) (int, int, bool) { // (which index param, field index)
			for _, p := range []int{1, 2} {
				pre := fmt.Sprintf("*p0[p%d].f", p)
				if strings.HasPrefix(s, pre) {
					var n int
					if _, err := fmt.Sscanf(s[len(pre):], "%d", &n); err == nil {
						return p, n, true
					}
				}
			}
			return 0, 0, false
		}
		pa, fa, oka := side(parts[1])
		pb, fb, okb := side(parts[2])
		if !oka || !okb || fa != fb || pa == pb {
			return false, false
		}
		sg, known := sign[fa]
		if !known {
			return false, false
		}
		if pa == 2 { // comparing elem[j] with elem[i]
			sg = -sg
		}
		switch parts[0] {
		case "<":
			return sg < 0, true
		case "<=":
			return sg <= 0, true
		case ">":
			return sg > 0, true
		case ">=":
			return sg >= 0, true
		case "==":
			return sg == 0, true
		case "!=":
			return sg != 0, true
		}
		return false, false
	}
	n := 1
	for range idx {
		n *= 3
	}
	for combo := 0; combo < n; combo++ {
		sign := map[int]int{}
		x := combo
		want := false
		decided := false
		for _, k := range idx {
			sg := x%3 - 1
			x /= 3
			sign[k] = sg
			if !decided && sg != 0 {
				want, decided = sg < 0, true
			}
		}
		matched := 0
		for _, p := range o.paths {
			consistent := true
			for _, cnd := range p.conds {
				v, ok := evalCmp(cnd[2:], sign)
				if !ok {
					return false, "a test compares something other than the same field of the two elements: " + cnd
				}
				if v != (cnd[0] == 'T') {
					consistent = false
				}
			}
			if !consistent {
				continue
			}
			matched++
			if len(p.rets) != 1 {
				return false, "result arity"
			}
			got := false
			switch p.rets[0] {
			case "true":
				got = true
			case "false":
			default:
				v, ok := evalCmp(p.rets[0], sign)
				if !ok {
					return false, "the result is not a comparison of the same field of the two elements: " + p.rets[0]
				}
				got = v
			}
			if got != want {
				return false, fmt.Sprintf("for orderings %v of (%s) it returns %v, the lexicographic order gives %v", sign, strings.Join(fields, ", "), got, want)
			}
		}
		if matched != 1 {
			return false, fmt.Sprintf("%d paths apply to one ordering of the fields", matched)
		}
	}
	return true, fmt.Sprintf("lexicographic on (%s) for all %d orderings of the compared fields", strings.Join(fields, ", "), n)
}

// assignedLater: among stmts there is `<x>.<dst> = <local>` (the list was built in a local first).
func assignedLater(stmts []ast.Stmt, local, dstSuffix string) bool {
	for _, s := range stmts {
		if as, ok := s.(*ast.AssignStmt); ok && len(as.Lhs) == 1 && len(as.Rhs) == 1 {
			if strings.HasSuffix(exprStr(as.Lhs[0]), dstSuffix) && exprStr(as.Rhs[0]) == local {
				return true
			}
		}
	}
	return false
}
