package main

import (
	"fmt"
	"go/token"
	"go/types"
	"sort"
	"strings"

	"golang.org/x/tools/go/ssa"
)

// Trip-count argument for the array path of encoder.writeField: the number of values it emits
// equals the profile length of the field, however the loops are spelled or split into helpers.
// Every loop on the success spine of the array path is a counted loop (up: i from a to b by +1,
// trip count b - a given a <= b; down: n from a to 0 by -1, trip count a given a >= 0) whose body
// emits exactly one value on every iteration that continues; helpers on the spine are summarised
// the same way with their parameters replaced by the arguments. The sum of the trip counts is
// simplified as a linear term over named atoms (loads by access path, phis by position) and must
// be the field's length; the side conditions (a <= b) come from the clamp `max = min(len, length)`
// recognised as a phi over `len > length`.

type sterm struct {
	coef map[string]int64
	k    int64
}

func (t sterm) add(u sterm, m int64) sterm {
	out := sterm{coef: map[string]int64{}, k: t.k + m*u.k}
	for a, c := range t.coef {
		out.coef[a] = c
	}
	for a, c := range u.coef {
		out.coef[a] += m * c
		if out.coef[a] == 0 {
			delete(out.coef, a)
		}
	}
	return out
}

func (t sterm) String() string {
	var ks []string
	for a := range t.coef {
		ks = append(ks, a)
	}
	sort.Strings(ks)
	var parts []string
	for _, a := range ks {
		parts = append(parts, fmt.Sprintf("%d*%s", t.coef[a], a))
	}
	if t.k != 0 || len(parts) == 0 {
		parts = append(parts, fmt.Sprint(t.k))
	}
	return strings.Join(parts, " + ")
}

type countCtx struct {
	c     *Ctx
	env   map[ssa.Value]sterm // parameter -> argument term (for helpers)
	facts map[string]bool     // "a<=b" over atom names
	why   string
}

func (cc *countCtx) atomName(v ssa.Value) string {
	switch x := v.(type) {
	case *ssa.Phi:
		return fmt.Sprintf("phi:%s@%s#%d", x.Comment, x.Parent().Name(), x.Block().Index)
	case *ssa.Parameter:
		return "param:" + x.Parent().Name() + "." + x.Name()
	}
	return stripAddrs(pathOf(v))
}

func (cc *countCtx) term(v ssa.Value) sterm {
	if t, ok := cc.env[v]; ok {
		return t
	}
	switch x := v.(type) {
	case *ssa.Const:
		if x.Value != nil {
			return sterm{coef: map[string]int64{}, k: x.Int64()}
		}
	case *ssa.Convert:
		// widening integer conversions preserve the value
		fb, tb := basicOf(x.X.Type()), basicOf(x.Type())
		if fb != nil && tb != nil && fb.Info()&types.IsInteger != 0 && tb.Info()&types.IsInteger != 0 && width(tb) > width(fb) {
			return cc.term(x.X)
		}
		if fb != nil && tb != nil && width(tb) == width(fb) && isSigned(fb) == isSigned(tb) {
			return cc.term(x.X)
		}
	case *ssa.BinOp:
		// only in a type wide enough not to wrap for byte-sized operands (int)
		if b := basicOf(x.Type()); b != nil && width(b) >= 32 {
			switch x.Op {
			case token.ADD:
				return cc.term(x.X).add(cc.term(x.Y), 1)
			case token.SUB:
				return cc.term(x.X).add(cc.term(x.Y), -1)
			}
		}
	}
	return sterm{coef: map[string]int64{cc.atomName(v): 1}}
}

// le: a <= b follows from the recorded facts (single atoms) or from the types (0 <= unsigned).
func (cc *countCtx) le(a, b sterm) bool {
	d := b.add(a, -1) // b - a >= 0 ?
	if d.k < 0 {
		return false
	}
	// atoms are unsigned quantities (bytes, lengths): a term with non-negative coefficients is >= 0;
	// a pair +X -Y is >= 0 when Y <= X is a recorded fact
	var neg, pos []string
	for n, c := range d.coef {
		switch {
		case c == -1:
			neg = append(neg, n)
		case c < -1:
			return false
		case c == 1:
			pos = append(pos, n)
		}
	}
	used := map[string]bool{}
	for _, y := range neg {
		ok := false
		for _, x := range pos {
			if !used[x] && cc.facts[y+"<="+x] {
				used[x] = true
				ok = true
				break
			}
		}
		if !ok {
			return false
		}
	}
	return true
}

// clampFacts: phi = [A, B] where the B edge is taken under A > B (B read again) and the A edge under
// its negation gives phi <= B and phi <= A.
func (cc *countCtx) clampFacts(fn *ssa.Function) {
	for _, b := range fn.Blocks {
		for _, ins := range b.Instrs {
			phi, ok := ins.(*ssa.Phi)
			if !ok || len(phi.Edges) != 2 {
				continue
			}
			for i := 0; i < 2; i++ {
				a, bb := phi.Edges[i], phi.Edges[1-i]
				pa, pb := b.Preds[i], b.Preds[1-i]
				// pa: the block that tests a > bb' and falls through (false edge) to b; pb: its true successor
				ifi, ok := pa.Instrs[len(pa.Instrs)-1].(*ssa.If)
				if !ok || pa.Succs[0] != pb || pa.Succs[1] != b || len(pb.Preds) != 1 {
					continue
				}
				bo, ok := ifi.Cond.(*ssa.BinOp)
				if !ok || bo.Op != token.GTR || bo.X != a {
					continue
				}
				if cc.atomName(bo.Y) != cc.atomName(bb) {
					continue
				}
				n := cc.atomName(phi)
				cc.facts[n+"<="+cc.atomName(bb)] = true
				cc.facts[n+"<="+cc.atomName(a)] = true
			}
		}
	}
}

func isEmit(ci ssa.CallInstruction) bool {
	f := ci.Common().StaticCallee()
	return f != nil && f.Name() == "encodeValue" && fnPkgPath(f) == modPath
}

// spineCount: values emitted on every path from the entry of fn to `to`, as a term; ok=false with
// cc.why set when the shape is outside the argument.
func (cc *countCtx) spineCount(fn *ssa.Function, to *ssa.BasicBlock, depth int) (sterm, bool) {
	zero := sterm{coef: map[string]int64{}}
	if depth > 3 {
		cc.why = "helpers nested too deeply"
		return zero, false
	}
	cc.clampFacts(fn)
	// dominator chain of `to`
	var chain []*ssa.BasicBlock
	for b := to; b != nil; b = b.Idom() {
		chain = append([]*ssa.BasicBlock{b}, chain...)
	}
	onChain := map[*ssa.BasicBlock]bool{}
	for _, b := range chain {
		onChain[b] = true
	}
	total := zero
	inSomeLoop := map[*ssa.BasicBlock]bool{}
	for _, h := range chain {
		body, latches := loopBody(h)
		if len(latches) == 0 {
			continue
		}
		for b := range body {
			inSomeLoop[b] = true
		}
		// the counter
		var trip sterm
		found := false
		for _, blk := range []*ssa.BasicBlock{h} {
			ifi, ok := blk.Instrs[len(blk.Instrs)-1].(*ssa.If)
			if !ok {
				continue
			}
			bo, ok := ifi.Cond.(*ssa.BinOp)
			if !ok || !body[blk.Succs[0]] || body[blk.Succs[1]] {
				continue
			}
			phi, ok := bo.X.(*ssa.Phi)
			if !ok || phi.Block() != h || len(phi.Edges) != 2 {
				continue
			}
			var init, next ssa.Value
			for i, e := range phi.Edges {
				if body[h.Preds[i]] {
					next = e
				} else {
					init = e
				}
			}
			step, ok := next.(*ssa.BinOp)
			if !ok || step.X != ssa.Value(phi) {
				continue
			}
			k, ok := step.Y.(*ssa.Const)
			if !ok || k.Value == nil || k.Int64() != 1 {
				continue
			}
			switch {
			case bo.Op == token.LSS && step.Op == token.ADD:
				a, bnd := cc.term(init), cc.term(bo.Y)
				if !cc.le(a, bnd) {
					cc.why = fmt.Sprintf("loop at %s counts from %s up to %s, and %s <= %s is not established", cc.c.pos(firstPos(h)), a, bnd, a, bnd)
					return zero, false
				}
				trip, found = bnd.add(a, -1), true
			case bo.Op == token.GTR && step.Op == token.SUB:
				if z, ok := bo.Y.(*ssa.Const); !ok || z.Value == nil || z.Int64() != 0 {
					continue
				}
				a := cc.term(init)
				if !cc.le(zero, a) {
					cc.why = fmt.Sprintf("loop at %s counts down from %s, and 0 <= %s is not established", cc.c.pos(firstPos(h)), a, a)
					return zero, false
				}
				trip, found = a, true
			}
		}
		if !found {
			cc.why = "loop at " + cc.c.pos(firstPos(h)) + " is not a counter running by 1 to a bound"
			return zero, false
		}
		// exactly one emit in the body, on every iteration that continues
		n := 0
		for b := range body {
			for _, ins := range b.Instrs {
				ci, ok := ins.(ssa.CallInstruction)
				if !ok {
					continue
				}
				if isEmit(ci) {
					n++
					for _, l := range latches {
						if !ci.Block().Dominates(l) {
							cc.why = "the value written in the loop at " + cc.c.pos(firstPos(h)) + " is not written on every iteration"
							return zero, false
						}
					}
				} else if f := ci.Common().StaticCallee(); f != nil && fnPkgPath(f) == modPath && emitsSomewhere(f, 0) {
					cc.why = "the loop at " + cc.c.pos(firstPos(h)) + " calls " + f.Name() + ", which writes values itself"
					return zero, false
				}
			}
		}
		if n != 1 {
			cc.why = fmt.Sprintf("the loop at %s writes %d values per iteration", cc.c.pos(firstPos(h)), n)
			return zero, false
		}
		total = total.add(trip, 1)
	}
	// emits and emitting helpers outside loops: only on the chain (executed on every path to `to`)
	for _, b := range fn.Blocks {
		if inSomeLoop[b] {
			continue
		}
		for _, ins := range b.Instrs {
			ci, ok := ins.(ssa.CallInstruction)
			if !ok {
				continue
			}
			f := ci.Common().StaticCallee()
			emits := isEmit(ci)
			helper := !emits && f != nil && fnPkgPath(f) == modPath && len(f.Blocks) > 0 && emitsSomewhere(f, 0)
			if !emits && !helper {
				continue
			}
			if !onChain[b] {
				if b.Dominates(to) || reachesBlock(b, to) {
					cc.why = "a value is written at " + cc.c.pos(ci.Pos()) + " on some but not all paths of the array branch"
					return zero, false
				}
				continue // belongs to another branch (the scalar path)
			}
			if emits {
				total = total.add(sterm{coef: map[string]int64{}, k: 1}, 1)
				continue
			}
			// helper: its own spine count, parameters replaced by the arguments
			sub := &countCtx{c: cc.c, env: map[ssa.Value]sterm{}, facts: cc.facts}
			for i, p := range f.Params {
				if i < len(ci.Common().Args) {
					sub.env[p] = cc.term(ci.Common().Args[i])
				}
			}
			rets := cc.c.successReturns(f)
			if len(rets) != 1 {
				cc.why = fmt.Sprintf("helper %s has %d success returns", f.Name(), len(rets))
				return zero, false
			}
			t, ok := sub.spineCount(f, rets[0].Block(), depth+1)
			if !ok {
				cc.why = f.Name() + ": " + sub.why
				return zero, false
			}
			total = total.add(t, 1)
		}
	}
	return total, true
}

func reachesBlock(from, to *ssa.BasicBlock) bool {
	seen := map[*ssa.BasicBlock]bool{}
	q := []*ssa.BasicBlock{from}
	for len(q) > 0 {
		b := q[0]
		q = q[1:]
		if seen[b] {
			continue
		}
		seen[b] = true
		if b == to {
			return true
		}
		q = append(q, b.Succs...)
	}
	return false
}

func emitsSomewhere(f *ssa.Function, depth int) bool {
	if depth > 3 {
		return true
	}
	for _, ci := range allCalls(f) {
		if isEmit(ci) {
			return true
		}
		if g := ci.Common().StaticCallee(); g != nil && g != f && fnPkgPath(g) == modPath && len(g.Blocks) > 0 && g.Name() != "encodeValue" && emitsSomewhere(g, depth+1) {
			return true
		}
	}
	return false
}

// c05ArrayCount: the array branch of writeField emits exactly f.length values.
func c05ArrayCount(c *Ctx, r *Report) {
	const rule = "C05-R4-size-agreement"
	fn := c.ssaFn(c.fn(c.fit, "encoder.writeField"))
	if fn == nil {
		r.fail(rule, "writeField", "", "not found")
		return
	}
	// the array branch: success returns dominated by the true edge of Array()
	isArrayCall := func(v ssa.Value) bool {
		call, ok := v.(*ssa.Call)
		return ok && call.Common().StaticCallee() != nil && call.Common().StaticCallee().Name() == "Array"
	}
	var target *ssa.BasicBlock
	n := 0
	for _, ret := range c.successReturns(fn) {
		if domByBoolEdge(fn, ret.Block(), true, isArrayCall) {
			target = ret.Block()
			n++
		}
	}
	key := "writeField/array-loops"
	if n != 1 {
		r.undecided(rule, key, c.pos(fn.Pos()), fmt.Sprintf("the array branch of writeField has %d success returns (one expected)", n))
		return
	}
	cc := &countCtx{c: c, env: map[ssa.Value]sterm{}, facts: map[string]bool{}}
	total, ok := cc.spineCount(fn, target, 0)
	if !ok {
		r.undecided(rule, key, c.pos(fn.Pos()), "the number of values written for an array field is not a recognised sum of counted loops: "+cc.why)
		return
	}
	// the field's length: the parameter's .length
	want := ""
	for _, p := range fn.Params {
		if strings.HasSuffix(p.Type().String(), ".field") {
			want = "*" + p.Name() + ".length"
		}
	}
	good := len(total.coef) == 1 && total.coef[want] == 1 && total.k == 0
	r.check(good, rule, key, c.pos(fn.Pos()), "arrays emit exactly `length` elements: the trip counts of the loops on the array branch sum to "+total.String(), "an array field is written as "+total.String()+" values, not "+want+": the record is shorter or longer than its definition announces")
}
