package main

import (
	"fmt"
	"go/token"
	"go/types"
	"strings"

	"golang.org/x/tools/go/ssa"
)

func init() {
	register(&propDef{
		id: "C10", level: "other", run: runC10,
		explanation: "Decided: the framing discipline. (R1) the input reader is assigned once from the parameter, unwrapped, and read only at the enumerated sites. (R2) every read is exact or capped: header = 1 byte + (Size-1) bytes with Size proven in {12,14} at the read; CRC = 2 bytes; the buffer handed to Read in fill has high bound min(len(buf), limit-n), behind the n == limit guard; the byte counter n advances by exactly the amount i advances in every function that hands bytes out; CRC-only mode copies exactly DataSize bytes. readFull returns nil only when the whole destination was filled. (R3) exact consumption: limit is set once to DataSize; decodeFileData succeeds only through the false edge of n < limit; decode reaches checkCRC only after that. (R4; chained files start from per-file state: a fresh decoder per file, or every decoder field written while decoding is re-initialised before its next use) DecodeChained allocates a fresh decoder inside its loop and passes the same reader; DecodeHeader/DecodeHeaderAndFileID/Decode share decode and return its header / file_id. NOT decided: equality of each chained File with the File decoded alone (follows from R1-R4 and C08 on paper); the relational invariant n <= limit is implied by the cap and the counting rule but is not computed by an interval analysis here. (R4 options-state) nothing on the decode path writes through a map or slice kept in decodeOptions. The read discipline of C04 (who reads the input; every byte read reaches the running checksum exactly once) runs here too: a byte hashed twice or not at all makes the result depend on the reader's chunking.",
		trusted:     []string{"io.ReadFull/binary.Read/io.CopyN read exactly the requested amount or fail", "io.Reader.Read(p) reads at most len(p) bytes"},
	})
}

// constSetAt: set of constants that load(pathSuffix) is known to equal on entry to block b,
// from equality tests on the edges leading to it. nil = unconstrained.
func constSetAt(b *ssa.BasicBlock, pathSuffix string, memo map[*ssa.BasicBlock]map[int64]bool, active map[*ssa.BasicBlock]bool) map[int64]bool {
	if m, ok := memo[b]; ok {
		return m
	}
	if active[b] || len(b.Preds) == 0 {
		return nil
	}
	active[b] = true
	defer delete(active, b)
	out := map[int64]bool{}
	for _, p := range b.Preds {
		var edge map[int64]bool
		if len(p.Instrs) > 0 {
			if ifi, ok := p.Instrs[len(p.Instrs)-1].(*ssa.If); ok {
				if bo, ok := ifi.Cond.(*ssa.BinOp); ok && (bo.Op == token.EQL || bo.Op == token.NEQ) {
					x, k := bo.X, bo.Y
					if _, isC := x.(*ssa.Const); isC {
						x, k = k, x
					}
					if kc, ok := k.(*ssa.Const); ok && kc.Value != nil && strings.HasSuffix(pathOf(x), pathSuffix) {
						onTrue := bo.Op == token.EQL
						if (onTrue && p.Succs[0] == b && p.Succs[1] != b) || (!onTrue && p.Succs[1] == b && p.Succs[0] != b) {
							edge = map[int64]bool{kc.Int64(): true}
						}
					}
				}
			}
		}
		if edge == nil {
			edge = constSetAt(p, pathSuffix, memo, active)
		}
		if edge == nil {
			memo[b] = nil
			return nil
		}
		for k := range edge {
			out[k] = true
		}
	}
	memo[b] = out
	return out
}

func inLoop(b *ssa.BasicBlock) bool {
	seen := map[*ssa.BasicBlock]bool{}
	q := append([]*ssa.BasicBlock{}, b.Succs...)
	for len(q) > 0 {
		x := q[0]
		q = q[1:]
		if x == b {
			return true
		}
		if seen[x] {
			continue
		}
		seen[x] = true
		q = append(q, x.Succs...)
	}
	return false
}

func runC10(c *Ctx, r *Report) {
	recvFn := func(name string) *ssa.Function { return c.ssaFn(c.fn(c.fit, name)) }

	// ---- R1: census (same enumeration as C04-R1) -----------------------------------------------
	nReads, nAssign := 0, 0
	var copyNSites []ssa.CallInstruction
	allowed := map[string]bool{"decodeHeader/encoding/binary.Read": true, "decodeHeader/io.ReadFull": true, "fill/Read": true, "checkCRC/io.ReadFull": true, "decode/io.CopyN": true}
	for _, fn := range c.moduleFuncs() {
		if fnPkgPath(fn) != modPath {
			continue
		}
		for _, b := range fn.Blocks {
			for _, ins := range b.Instrs {
				fa, ok := ins.(*ssa.FieldAddr)
				if !ok || !isFieldOf(fa, "decoder", "r") {
					continue
				}
				for _, ref := range *fa.Referrers() {
					switch u := ref.(type) {
					case *ssa.Store:
						nAssign++
						isParam := readerFromCaller(c, u)
						r.check(isParam, "C10-R1-reader", "assign@"+fn.String(), c.pos(u.Pos()), "reader assigned from the parameter, unwrapped", "decoder.r is assigned from something other than the caller's reader: a wrapper (bufio, LimitReader) may read past the frame")
					case *ssa.UnOp:
						for _, use := range *u.Referrers() {
							ci, ok := use.(ssa.CallInstruction)
							if !ok {
								continue
							}
							cc := ci.Common()
							name := ""
							if cc.IsInvoke() && cc.Value == ssa.Value(u) {
								name = cc.Method.Name()
							} else if f := cc.StaticCallee(); f != nil {
								name = f.String()
							}
							nReads++
							k := fn.Name() + "/" + name
							if name == "io.CopyN" {
								k = "decode/io.CopyN" // the CRC-only copy may live in a helper; its length rule is applied where it is
								copyNSites = append(copyNSites, ci)
							}
							r.check(allowed[k], "C10-R1-reader", fmt.Sprintf("use@%s#%d", k, nReads), c.pos(ci.Pos()), "enumerated read site", "the input reader is used at an unexpected site ("+k+"): reads there are not bounded by the frame")
						}
					}
				}
			}
		}
	}
	r.need("reader use sites", nReads, 5)
	r.need("reader assignments", nAssign, 1)

	// ---- R2a: header reads --------------------------------------------------------------------
	if fn := recvFn("decoder.decodeHeader"); fn != nil {
		sizeCRC, _ := c.constInt(c.fit, "headerSizeCRC")
		sizeNo, _ := c.constInt(c.fit, "headerSizeNoCRC")
		for _, ci := range allCalls(fn) {
			f := ci.Common().StaticCallee()
			if f == nil {
				continue
			}
			switch f.String() {
			case "encoding/binary.Read":
				data := ci.Common().Args[2]
				if mi, ok := data.(*ssa.MakeInterface); ok {
					data = mi.X
				}
				pt, ok := data.Type().Underlying().(*types.Pointer)
				okB := ok && basicOf(pt.Elem()) != nil && width(basicOf(pt.Elem())) == 8 && strings.HasSuffix(pathOf(data), ".h.Size")
				r.check(okB, "C10-R2-exact-read", "decodeHeader/size-byte", c.pos(ci.Pos()), "first read takes exactly one byte into h.Size", "the first header read is not a one-byte read into h.Size")
			case "io.ReadFull":
				sl, ok := ci.Common().Args[1].(*ssa.Slice)
				okS := false
				detail := "header body read is not d.tmp[:h.Size-1]"
				if ok && sl.Low == nil && sl.High != nil {
					hp := pathOf(sl.High)
					if strings.Contains(hp, ".h.Size") && strings.HasSuffix(hp, "-1)") || strings.HasSuffix(hp, "-1))") {
						set := constSetAt(ci.Block(), ".h.Size", map[*ssa.BasicBlock]map[int64]bool{}, map[*ssa.BasicBlock]bool{})
						if len(set) == 2 && set[sizeCRC] && set[sizeNo] {
							okS = true
							detail = fmt.Sprintf("header body read takes h.Size-1 bytes with h.Size in {%d,%d} established on every edge into the read", sizeNo, sizeCRC)
						} else {
							detail = fmt.Sprintf("at the header body read h.Size is not proven to be %d or %d (known set: %v): a hostile size byte indexes the scratch buffer / reads past the header", sizeNo, sizeCRC, set)
						}
					}
				}
				r.check(okS, "C10-R2-exact-read", "decodeHeader/body", c.pos(ci.Pos()), detail, detail)
			}
		}
	} else {
		r.fail("C10-R2-exact-read", "decodeHeader", "", "not found")
	}
	// ---- R2b: CRC read --------------------------------------------------------------------------
	if fn := recvFn("decoder.checkCRC"); fn != nil {
		nb, _ := c.constInt(c.fit, "bytesForCRC")
		found := false
		for _, ci := range allCalls(fn) {
			if f := ci.Common().StaticCallee(); f != nil && f.String() == "io.ReadFull" {
				found = true
				sl, ok := ci.Common().Args[1].(*ssa.Slice)
				okS := false
				if ok && sl.Low == nil && sl.High != nil {
					if k, ok := sl.High.(*ssa.Const); ok && k.Value != nil && k.Int64() == 2 && nb == 2 {
						okS = true
					}
				}
				r.check(okS, "C10-R2-exact-read", "checkCRC/crc", c.pos(ci.Pos()), "trailing CRC read takes exactly 2 bytes", "the trailing CRC read is not exactly 2 bytes")
			}
		}
		if !found {
			r.fail("C10-R2-exact-read", "checkCRC/crc", "", "no ReadFull in checkCRC")
		}
	}
	// ---- R2c: fill cap ------------------------------------------------------------------------------
	if fn := recvFn("decoder.fill"); fn != nil {
		c10FillCap(c, r, fn)
	} else {
		r.fail("C10-R2-capped-read", "fill", "", "not found")
	}
	// ---- R2d: counter pairing -------------------------------------------------------------------------
	c10Counters(c, r)
	// ---- R2e: CopyN -----------------------------------------------------------------------------------
	if fn := recvFn("decoder.decode"); fn != nil {
		for _, ci := range copyNSites {
			{
				n := pathOf(ci.Common().Args[2])
				r.check(n == "conv<int64>(*d.h.DataSize)", "C10-R2-exact-read", "decode/CopyN", c.pos(ci.Pos()), "CRC-only mode consumes exactly DataSize bytes", "CRC-only copy length is "+n+", not int64(DataSize)")
			}
		}
		// ---- R3: limit set once ---------------------------------------------------------------------------
		nLimit := 0
		for _, f2 := range c.moduleFuncs() {
			if fnPkgPath(f2) != modPath {
				continue
			}
			for _, b := range f2.Blocks {
				for _, ins := range b.Instrs {
					st, ok := ins.(*ssa.Store)
					if !ok || !strings.HasSuffix(pathOf(st.Addr), ".bytes.limit") || c.isResetStore(st) {
						continue
					}
					nLimit++
					v := pathOf(st.Val)
					behindHeader := false
					for _, h := range c.callsVia(f2, "decodeHeader") {
						if instrDominates(h, st) {
							behindHeader = true
						}
					}
					if !behindHeader && f2 != fn {
						// a set-up helper: every call of it comes behind the header decode in its caller
						sites, behind := 0, 0
						for _, g := range c.moduleFuncs() {
							for _, ci := range allCalls(g) {
								if ci.Common().StaticCallee() != f2 {
									continue
								}
								sites++
								for _, h := range c.callsVia(g, "decodeHeader") {
									if instrDominates(h, ci) {
										behind++
										break
									}
								}
							}
						}
						behindHeader = sites > 0 && sites == behind
					}
					calledByDecode := f2 == fn
					for _, ci := range allCalls(fn) {
						if ci.Common().StaticCallee() == f2 {
							calledByDecode = true
						}
					}
					r.check(calledByDecode && behindHeader && v == "conv<int>(*d.h.DataSize)", "C10-R3-exact-consumption", "limit-store@"+f2.Name(), c.pos(st.Pos()), "limit = int(h.DataSize), set in decode (or a helper it calls) behind the header decode", "the data-size limit is set to "+v+" in "+f2.Name()+" (behind decodeHeader: "+fmt.Sprint(behindHeader)+")")
				}
			}
		}
		r.need("stores to the data-size limit", nLimit, 1)
		r.check(nLimit == 1, "C10-R3-exact-consumption", "limit-store-once", "", "limit is stored exactly once", fmt.Sprintf("limit is stored %d times", nLimit))
		// checkCRC call for the full decode is dominated by decodeFileData's err == nil edge
		var dfd *ssa.Call
		for _, ci := range allCalls(fn) {
			if f := ci.Common().StaticCallee(); f != nil && f.Name() == "decodeFileData" {
				dfd, _ = ci.(*ssa.Call)
			}
		}
		okDom := false
		if dfd != nil {
			for _, ci := range allCalls(fn) {
				if f := ci.Common().StaticCallee(); f != nil && f.Name() == "checkCRC" && c.errNilDominates(fn, dfd, ci.Block()) {
					okDom = true
				}
			}
		}
		// every success return of a full decode is behind the CRC read (the two trailing bytes are part of the frame)
		{
			crcCalls := c.callsVia(fn, "checkCRC")
			bad := ""
			for _, ret := range c.successReturns(fn) {
				rb := ret.Block()
				behind := false
				for _, ci := range crcCalls {
					if ci.Block() == rb || ci.Block().Dominates(rb) {
						behind = true
					}
					if len(ret.Results) > 0 {
						if call, ok := resolveSpill(ret.Results[len(ret.Results)-1]).(*ssa.Call); ok && ssa.CallInstruction(call) == ci {
							behind = true
						}
					}
				}
				partial := domByBoolEdge(fn, rb, true, func(v ssa.Value) bool {
					p, ok := v.(*ssa.Parameter)
					return ok && (p.Name() == "headerOnly" || p.Name() == "fileIDOnly")
				})
				if !behind && !partial {
					bad = c.pos(ret.Pos())
				}
			}
			r.check(bad == "" && len(crcCalls) > 0, "C10-R3-exact-consumption", "decode/crc-bytes-consumed", c.pos(fn.Pos()), "every success return of a full decode is behind checkCRC, which reads the two trailing bytes", "decode returns success at "+bad+" without having read the trailing CRC: the frame is under-consumed by two bytes and the next chained file starts on them")
		}
		r.check(okDom, "C10-R3-exact-consumption", "decode/crc-after-data", "", "the trailing CRC is read only after decodeFileData succeeded", "checkCRC is not dominated by the success edge of decodeFileData")
	}
	if fn := recvFn("decoder.decodeFileData"); fn != nil {
		// success returns dominated by false edge of n < limit
		var exit *ssa.BasicBlock
		for _, b := range fn.Blocks {
			if len(b.Instrs) == 0 {
				continue
			}
			if ifi, ok := b.Instrs[len(b.Instrs)-1].(*ssa.If); ok {
				if bo, ok := ifi.Cond.(*ssa.BinOp); ok && bo.Op == token.LSS && pathOf(bo.X) == "*d.bytes.n" && pathOf(bo.Y) == "*d.bytes.limit" {
					exit = b.Succs[1]
				}
			}
		}
		ok := exit != nil
		n := 0
		if ok {
			for _, ret := range c.successReturns(fn) {
				n++
				if !exit.Dominates(ret.Block()) {
					ok = false
				}
			}
		}
		r.check(ok && n > 0, "C10-R3-exact-consumption", "decodeFileData/exit", c.pos(fn.Pos()), "record loop succeeds only through n >= limit (and fill caps n <= limit)", "decodeFileData can return success while n < limit: the frame is not consumed exactly")
	}

	readFullExact(c, r, "C10-R2-exact-read")
	// ---- R4: chaining and shared decode ------------------------------------------------------------------
	if fn := c.ssaFn(c.fn(c.fit, "DecodeChained")); fn != nil {
		ok := false
		why := "no decode call"
		for _, ci := range allCalls(fn) {
			if f := ci.Common().StaticCallee(); f != nil && f.Name() == "decode" {
				_, isParam := ci.Common().Args[1].(*ssa.Parameter)
				if !isParam {
					why = "decode is not given the caller's reader"
				} else {
					ok = true
					why = "decode is given the caller's reader itself"
				}
			}
		}
		r.check(ok, "C10-R4-chaining", "DecodeChained/same-reader", c.pos(fn.Pos()), why, why)
		// fresh decoder per file, or a complete re-initialisation (perfile.go)
		optionsCarryNoState(c, r, "C10-R4-chaining")
		readerKindIndependent(c, r, "C10-R1-reader")
		perFileRule(c, r, "C10-R4-chaining", nil, "buffered bytes, counters, definitions or timestamps of one file are seen by the next, so a chained file does not decode as it does alone")
	}
	sharedDecode(c, r)
	// chunk independence of the result: who reads the input, and every byte read reaches the checksum once
	c04ReadDiscipline(c, r)
}

// sharedDecode: every decoding entry point goes through the one decoder.decode exactly once and
// returns the decoder's own result: the header and file verdicts established for decode (C04) and its
// framing (C10) hold for each entry point, none of which has a private reading path.
func sharedDecode(c *Ctx, r *Report) {
	for _, e := range []struct{ name, ret string }{{"DecodeHeader", ".h"}, {"DecodeHeaderAndFileID", ".h"}, {"Decode", ".file"}, {"CheckIntegrity", ""}} {
		fn := c.ssaFn(c.fn(c.fit, e.name))
		if fn == nil {
			r.fail("C10-R4-shared-decode", e.name, "", "not found")
			continue
		}
		nDec := 0
		for _, ci := range allCalls(fn) {
			if f := ci.Common().StaticCallee(); f != nil && f.Name() == "decode" {
				nDec++
			}
		}
		okRet := true
		if e.ret != "" {
			for _, ret := range c.successReturns(fn) {
				if !strings.Contains(pathOf(ret.Results[0]), e.ret) {
					okRet = false
				}
			}
		}
		r.check(nDec == 1 && okRet, "C10-R4-shared-decode", e.name, c.pos(fn.Pos()), "goes through the shared decode and returns its "+strings.TrimPrefix(e.ret, "."), e.name+" does not go through decode exactly once or does not return the decoder's own result")
	}
}

func c10FillCap(c *Ctx, r *Report, fn *ssa.Function) {
	var read *ssa.Call
	for _, ci := range allCalls(fn) {
		cc := ci.Common()
		if cc.IsInvoke() && cc.Method.Name() == "Read" {
			read, _ = ci.(*ssa.Call)
		}
	}
	if read == nil {
		r.fail("C10-R2-capped-read", "fill/Read", "", "no Read call in fill")
		return
	}
	pos := c.pos(read.Pos())
	sl, ok := read.Common().Args[0].(*ssa.Slice)
	if !ok || sl.High == nil {
		r.fail("C10-R2-capped-read", "fill/Read", pos, "Read buffer has no high bound: it is not capped by the remaining data size")
		return
	}
	at, _ := sl.X.Type().Underlying().(*types.Pointer).Elem().Underlying().(*types.Array)
	isRemaining := func(v ssa.Value) bool {
		return pathOf(v) == "(*d.bytes.limit-*d.bytes.n)"
	}
	okCap := false
	detail := "high bound of the Read buffer is not min(len(buf), limit-n)"
	switch h := sl.High.(type) {
	case *ssa.Phi:
		if len(h.Edges) == 2 && at != nil {
			var k *ssa.Const
			var m ssa.Value
			var mPred *ssa.BasicBlock
			for i, e := range h.Edges {
				if kc, ok := e.(*ssa.Const); ok {
					k = kc
				} else {
					m, mPred = e, h.Block().Preds[i]
				}
			}
			if k != nil && m != nil && k.Int64() == at.Len() && isRemaining(m) {
				// the m-edge must be taken exactly when m < K
				for _, b := range fn.Blocks {
					if len(b.Instrs) == 0 {
						continue
					}
					ifi, ok := b.Instrs[len(b.Instrs)-1].(*ssa.If)
					if !ok {
						continue
					}
					bo, ok := ifi.Cond.(*ssa.BinOp)
					if !ok {
						continue
					}
					kk, isK := bo.Y.(*ssa.Const)
					if (bo.Op == token.LSS || bo.Op == token.LEQ) && bo.X == m && isK && kk.Int64() == at.Len() && (b.Succs[0] == mPred || (b.Succs[0] == h.Block() && mPred == b)) && b.Succs[0] != b.Succs[1] {
						// true edge leads (through mPred) to the phi's m-edge; false edge must carry K
						okCap = true
						detail = fmt.Sprintf("Read buffer is buf[i:min(%d, limit-n)]", at.Len())
					}
				}
			}
		}
	case *ssa.Call:
		if b, ok := h.Common().Value.(*ssa.Builtin); ok && b.Name() == "min" {
			hasK, hasM := false, false
			for _, a := range h.Common().Args {
				if kc, ok := a.(*ssa.Const); ok && at != nil && kc.Int64() <= at.Len() {
					hasK = true
				}
				if isRemaining(a) {
					hasM = true
				}
			}
			if hasK && hasM {
				okCap = true
				detail = "Read buffer is buf[i:min(len, limit-n)]"
			}
		}
	}
	r.check(okCap, "C10-R2-capped-read", "fill/Read-cap", pos, detail, detail+": a Read could take bytes that belong to the CRC or the next chained file")
	// n == limit guard dominates the Read
	okGuard := false
	for _, b := range fn.Blocks {
		if len(b.Instrs) == 0 {
			continue
		}
		ifi, ok := b.Instrs[len(b.Instrs)-1].(*ssa.If)
		if !ok {
			continue
		}
		bo, ok := ifi.Cond.(*ssa.BinOp)
		if !ok {
			continue
		}
		px, py := pathOf(bo.X), pathOf(bo.Y)
		isPair := (px == "*d.bytes.n" && py == "*d.bytes.limit") || (py == "*d.bytes.n" && px == "*d.bytes.limit")
		if !isPair {
			continue
		}
		var cont *ssa.BasicBlock
		switch bo.Op {
		case token.EQL, token.GEQ:
			cont = b.Succs[1]
		case token.NEQ, token.LSS:
			cont = b.Succs[0]
		}
		if cont != nil && len(cont.Preds) == 1 && cont.Dominates(read.Block()) {
			okGuard = true
		}
	}
	r.check(okGuard, "C10-R2-capped-read", "fill/limit-guard", pos, "Read is reached only when n != limit (so the cap is at least 1 byte and never negative given n <= limit)", "the Read in fill is not behind the `n == limit` guard")
}

// c10Counters: every store to bytes.i that advances it is paired with the same advance of bytes.n.
func c10Counters(c *Ctx, r *Report) {
	nPairs := 0
	for _, fn := range c.moduleFuncs() {
		if fnPkgPath(fn) != modPath {
			continue
		}
		type adv struct {
			st   *ssa.Store
			step string
		}
		var is, ns []adv
		for _, b := range fn.Blocks {
			for _, ins := range b.Instrs {
				st, ok := ins.(*ssa.Store)
				if !ok {
					continue
				}
				p := pathOf(st.Addr)
				isI := strings.HasSuffix(p, ".bytes.i")
				isN := strings.HasSuffix(p, ".bytes.n")
				isJ := strings.HasSuffix(p, ".bytes.j")
				if !isI && !isN && !isJ {
					continue
				}
				key := fmt.Sprintf("%s/%s", fn.Name(), p)
				if c.isResetStore(st) {
					r.ok("C10-R2-counter-pairing", key, c.pos(st.Pos()), "zeroed between files by a function decoding cannot reach")
					continue
				}
				if fn.Name() == "fill" {
					// fill may reset i, j to a constant and add the read count to j; it must not touch n
					if isN {
						r.fail("C10-R2-counter-pairing", key, c.pos(st.Pos()), "fill changes the consumed-byte counter n")
					}
					continue
				}
				if isJ {
					r.fail("C10-R2-counter-pairing", key, c.pos(st.Pos()), "the buffer fill mark j is stored outside fill")
					continue
				}
				bo, ok := st.Val.(*ssa.BinOp)
				if !ok || bo.Op != token.ADD || pathOf(bo.X) != "*"+p {
					r.fail("C10-R2-counter-pairing", key, c.pos(st.Pos()), "store is not an advance of the form x += k")
					continue
				}
				if isI {
					is = append(is, adv{st, pathOf(bo.Y)})
				} else {
					ns = append(ns, adv{st, pathOf(bo.Y)})
				}
			}
		}
		used := map[int]bool{}
		for k, a := range is {
			paired := false
			for j, b := range ns {
				if !used[j] && a.st.Block() == b.st.Block() && a.step == b.step {
					used[j] = true
					paired = true
					break
				}
			}
			key := fmt.Sprintf("%s/advance-i#%d", fn.Name(), k)
			// the advance must not pass the fill mark: k == 1 behind the `i == j` loop exit, or k = copy(_, buf[i:j])
			within := false
			if bo, ok := a.st.Val.(*ssa.BinOp); ok {
				switch y := bo.Y.(type) {
				case *ssa.Const:
					if y.Value != nil && y.Int64() == 1 {
						for _, blk := range fn.Blocks {
							if len(blk.Instrs) == 0 {
								continue
							}
							ifi, ok := blk.Instrs[len(blk.Instrs)-1].(*ssa.If)
							if !ok {
								continue
							}
							cmp, ok := ifi.Cond.(*ssa.BinOp)
							if !ok || cmp.Op != token.EQL {
								continue
							}
							px, py := pathOf(cmp.X), pathOf(cmp.Y)
							if (strings.HasSuffix(px, ".bytes.i") && strings.HasSuffix(py, ".bytes.j")) || (strings.HasSuffix(px, ".bytes.j") && strings.HasSuffix(py, ".bytes.i")) {
								if blk.Succs[1].Dominates(a.st.Block()) {
									within = true
								}
							}
						}
					}
				case *ssa.Call:
					if bi, ok := y.Common().Value.(*ssa.Builtin); ok && bi.Name() == "copy" && len(y.Common().Args) == 2 {
						src := pathOf(y.Common().Args[1])
						if strings.HasSuffix(src, ".bytes.buf[*d.bytes.i:*d.bytes.j]") {
							within = true
						}
					}
				}
			}
			if !within {
				// the inductive cursor invariant (fieldinv.go) proves i <= j after every store in this function
				if cp := c.cursorProof(); cp.preserves != nil {
					if why, walked := cp.preserves[fn]; walked && why == "" {
						within = true
					}
				}
			}
			if paired && !within {
				r.fail("C10-R2-counter-pairing", key, c.pos(a.st.Pos()), "the read position i advances by "+a.step+" without a bound by the fill mark j (neither `i != j` established for a step of 1 nor a copy count out of buf[i:j]): i can pass j, bytes that were never read are counted as consumed and later reads slice buf[i:j] with i > j")
				continue
			}
			if paired {
				nPairs++
				r.ok("C10-R2-counter-pairing", key, c.pos(a.st.Pos()), "i += "+a.step+" is paired with n += "+a.step+" in the same block and cannot pass the fill mark j")
			} else {
				r.fail("C10-R2-counter-pairing", key, c.pos(a.st.Pos()), "bytes are handed out (i advances by "+a.step+") without counting them in n by the same amount: the data-size limit drifts and the frame is over- or under-read")
			}
		}
		for j, b := range ns {
			if !used[j] {
				r.fail("C10-R2-counter-pairing", fmt.Sprintf("%s/advance-n#%d", fn.Name(), j), c.pos(b.st.Pos()), "n advances by "+b.step+" without handing out that many bytes")
			}
		}
	}
	r.need("i/n advance pairs", nPairs, 3)
}

// readerFromCaller: the store assigns decoder.r the reader the caller of decode passed in: the
// store is in decode and stores its parameter, or in a set-up helper that stores its own parameter
// and is called only from decode with decode's parameter.
func readerFromCaller(c *Ctx, st *ssa.Store) bool {
	p, ok := st.Val.(*ssa.Parameter)
	if !ok {
		return false
	}
	fn := st.Parent()
	if fn.Name() == "decode" {
		return true
	}
	idx := -1
	for i, q := range fn.Params {
		if q == p {
			idx = i
		}
	}
	sites := 0
	for _, g := range c.moduleFuncs() {
		for _, ci := range allCalls(g) {
			if ci.Common().StaticCallee() != fn {
				continue
			}
			sites++
			if g.Name() != "decode" || idx >= len(ci.Common().Args) {
				return false
			}
			if _, isP := ci.Common().Args[idx].(*ssa.Parameter); !isP {
				return false
			}
		}
	}
	return sites == 1
}
