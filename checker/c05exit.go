package main

import (
	"fmt"

	"golang.org/x/tools/go/ssa"
)

// c05NoSilentSkip: an encoder function that reports success has written what it writes on its
// straight-line path: every output call (binary.Write, Write on the output, or a module function
// that reaches one) which dominates the function's final success return also dominates every
// other success return. An early `return nil` in front of the definition header (or of the
// record header) leaves a hole in the stream — a data record without its definition — while the
// sizes and checksums written around it stay consistent.
func c05NoSilentSkip(c *Ctx, r *Report) {
	const rule = "C05-R3-no-silent-skip"
	enc := c.ssaFn(c.fn(c.fit, "Encode"))
	if enc == nil {
		r.fail(rule, "Encode", "", "not found")
		return
	}
	// functions on Encode's call tree that (transitively) write output
	writes := map[*ssa.Function]bool{}
	isOut := func(ci ssa.CallInstruction) bool {
		cc := ci.Common()
		if f := cc.StaticCallee(); f != nil {
			if f.String() == "encoding/binary.Write" {
				return true
			}
			return writes[f]
		}
		if cc.IsInvoke() && cc.Method.Name() == "Write" {
			return true
		}
		return false
	}
	order := c.reach([]*ssa.Function{enc}).order
	for changed := true; changed; {
		changed = false
		for _, fn := range order {
			if writes[fn] || fnPkgPath(fn) != modPath {
				continue
			}
			for _, ci := range allCalls(fn) {
				if isOut(ci) {
					writes[fn] = true
					changed = true
					break
				}
			}
		}
	}
	n := 0
	for _, fn := range order {
		if !writes[fn] || fnPkgPath(fn) != modPath || len(fn.Blocks) == 0 {
			continue
		}
		res := fn.Signature.Results()
		if res.Len() == 0 || !isErrorType(res.At(res.Len()-1).Type()) {
			continue
		}
		rets := c.successReturns(fn)
		if len(rets) == 0 {
			continue
		}
		// only functions that put bytes out themselves: they write part of a record whose presence the
		// caller has decided, so they may not succeed without writing. (Whether a whole unit is written
		// at all is the caller's decision; the pairing of definition and data is C05-R5, the presence
		// of every message C07-R5.)
		leaf := false
		outBlock := map[*ssa.BasicBlock]bool{}
		for _, ci := range allCalls(fn) {
			if !isOut(ci) {
				continue
			}
			if _, isDefer := ci.(*ssa.Defer); isDefer {
				continue
			}
			outBlock[ci.Block()] = true
			if f := ci.Common().StaticCallee(); f == nil || fnPkgPath(f) != modPath {
				leaf = true
			}
		}
		if !leaf {
			continue
		}
		n++
		// a loop whose body writes is taken to write when it is reached (an empty list or zero padding
		// is the data's business): its header is a barrier too
		barrier := map[*ssa.BasicBlock]bool{}
		for b := range outBlock {
			barrier[b] = true
		}
		for _, h := range fn.Blocks {
			for _, p := range h.Preds {
				if !h.Dominates(p) {
					continue
				}
				// natural loop of the back edge p -> h
				body := map[*ssa.BasicBlock]bool{h: true}
				stack := []*ssa.BasicBlock{p}
				for len(stack) > 0 {
					x := stack[len(stack)-1]
					stack = stack[:len(stack)-1]
					if body[x] {
						continue
					}
					body[x] = true
					stack = append(stack, x.Preds...)
				}
				for x := range body {
					if outBlock[x] {
						barrier[h] = true
					}
				}
			}
		}
		bad := ""
		seen := map[*ssa.BasicBlock]bool{}
		var q []*ssa.BasicBlock
		if !barrier[fn.Blocks[0]] {
			q = append(q, fn.Blocks[0])
		}
		silent := map[*ssa.BasicBlock]bool{}
		for len(q) > 0 {
			b := q[0]
			q = q[1:]
			if seen[b] {
				continue
			}
			seen[b] = true
			silent[b] = true
			for _, s := range b.Succs {
				if !barrier[s] {
					q = append(q, s)
				}
			}
		}
		for _, rt := range rets {
			if silent[rt.Block()] {
				bad = fmt.Sprintf("the success return at %s can be reached from the function's entry without passing any output call", c.pos(rt.Pos()))
			}
		}
		r.check(bad == "", rule, fn.Name(), c.pos(fn.Pos()), fmt.Sprintf("%d success return(s), each behind an output call on every path", len(rets)), bad+": on that path the function reports success without having written its part of the stream (a definition or record goes missing while sizes and checksums stay consistent)")
	}
	r.need("byte-writing encoder functions with an error result", n, 4)
}

// binaryWriteArgs: the (writer, order, data) of a binary.Write, given directly or through a module
// wrapper whose only effect is `return binary.Write(<param>, <param>, <param>)`.
func binaryWriteArgs(call ssa.CallInstruction) (w, order, data ssa.Value, ok bool) {
	cc := call.Common()
	f := cc.StaticCallee()
	if f == nil {
		return nil, nil, nil, false
	}
	if f.String() == "encoding/binary.Write" && len(cc.Args) == 3 {
		return cc.Args[0], cc.Args[1], cc.Args[2], true
	}
	if fnPkgPath(f) != modPath || len(f.Blocks) == 0 {
		return nil, nil, nil, false
	}
	var inner *ssa.Call
	for _, b := range f.Blocks {
		for _, ins := range b.Instrs {
			switch x := ins.(type) {
			case *ssa.Call:
				if g := x.Common().StaticCallee(); g != nil && g.String() == "encoding/binary.Write" && inner == nil {
					inner = x
				} else {
					return nil, nil, nil, false
				}
			case *ssa.Store, *ssa.MapUpdate, *ssa.Go, *ssa.Defer, *ssa.Panic:
				return nil, nil, nil, false
			}
		}
	}
	if inner == nil {
		return nil, nil, nil, false
	}
	arg := func(v ssa.Value) ssa.Value {
		for {
			switch x := v.(type) {
			case *ssa.MakeInterface:
				v = x.X
				continue
			case *ssa.ChangeInterface:
				v = x.X
				continue
			}
			break
		}
		p, isP := v.(*ssa.Parameter)
		if !isP {
			return nil
		}
		for i, q := range f.Params {
			if q == p && i < len(cc.Args) {
				return cc.Args[i]
			}
		}
		return nil
	}
	w, order, data = arg(inner.Common().Args[0]), arg(inner.Common().Args[1]), arg(inner.Common().Args[2])
	// every return hands back the write's result
	for _, b := range f.Blocks {
		if ret, isRet := b.Instrs[len(b.Instrs)-1].(*ssa.Return); isRet {
			if len(ret.Results) != 1 || ret.Results[0] != ssa.Value(inner) {
				return nil, nil, nil, false
			}
		}
	}
	return w, order, data, w != nil && order != nil && data != nil
}
