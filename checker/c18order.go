package main

import (
	"fmt"
	"go/ast"
	"go/token"
	"go/types"
	"sort"
	"strings"
)

// c18Order: the top-level blocks of an expandComponents body are emitted in the order of their
// source fields in the message struct (the generator walks the profile's field list). The order
// matters exactly where one block writes a field that another block reads: the pair must stand in
// struct order of the two blocks' sources — the writer first if its source comes first in the
// struct (event: data16 fills data before data's own components are taken), the reader first
// otherwise (record: speed goes to enhanced_speed before compressed_speed_distance overwrites
// speed). Blocks that share no field may stand in any order: swapping them changes nothing and is
// not reported.
func c18Order(c *Ctx, r *Report, info *types.Info, tname string, fd *ast.FuncDecl, st *types.Struct) int {
	if st == nil {
		return 0
	}
	recv := info.Defs[fd.Recv.List[0].Names[0]]
	idx := map[string]int{}
	for i := 0; i < st.NumFields(); i++ {
		idx[st.Field(i).Name()] = i
	}
	type blk struct {
		reads, writes map[string]bool
		src           string // primary source: the field the guard tests, else the earliest field read
		pos           token.Pos
	}
	var blks []*blk
	// locals that carry a value derived from receiver fields (expand := ...; set under a test of x.F)
	localFrom := map[types.Object]map[string]bool{}
	fieldsIn := func(n ast.Node, writes map[string]bool) map[string]bool {
		out := map[string]bool{}
		lhs := map[ast.Expr]bool{}
		ast.Inspect(n, func(nd ast.Node) bool {
			if as, ok := nd.(*ast.AssignStmt); ok {
				for _, l := range as.Lhs {
					if sel, ok := unparen(l).(*ast.SelectorExpr); ok && info.Uses[identOf(sel.X)] == recv {
						lhs[sel] = true
						if writes != nil {
							writes[sel.Sel.Name] = true
						}
					}
				}
			}
			return true
		})
		ast.Inspect(n, func(nd ast.Node) bool {
			switch x := nd.(type) {
			case *ast.SelectorExpr:
				if !lhs[x] && info.Uses[identOf(x.X)] == recv {
					if _, isField := idx[x.Sel.Name]; isField {
						out[x.Sel.Name] = true
					}
				}
			case *ast.Ident:
				if o := info.Uses[x]; o != nil {
					for f := range localFrom[o] {
						out[f] = true
					}
				}
			}
			return true
		})
		return out
	}
	for _, s := range fd.Body.List {
		b := &blk{writes: map[string]bool{}, pos: s.Pos()}
		b.reads = fieldsIn(s, b.writes)
		// a local assigned in this statement depends on the fields the statement reads
		ast.Inspect(s, func(nd ast.Node) bool {
			if as, ok := nd.(*ast.AssignStmt); ok {
				for _, l := range as.Lhs {
					if id, ok := l.(*ast.Ident); ok {
						o := info.Defs[id]
						if o == nil {
							o = info.Uses[id]
						}
						if o != nil && o != recv {
							if localFrom[o] == nil {
								localFrom[o] = map[string]bool{}
							}
							for f := range b.reads {
								localFrom[o][f] = true
							}
						}
					}
				}
			}
			return true
		})
		if len(b.reads) == 0 && len(b.writes) == 0 {
			continue
		}
		if ifs, ok := s.(*ast.IfStmt); ok {
			g := fieldsIn(ifs.Cond, nil)
			if len(g) == 1 {
				for f := range g {
					b.src = f
				}
			}
		}
		if b.src == "" {
			best := -1
			for f := range b.reads {
				if b.writes[f] {
					continue
				}
				if best < 0 || idx[f] < best {
					best = idx[f]
					b.src = f
				}
			}
		}
		blks = append(blks, b)
	}
	n := 0
	for i, a := range blks {
		for _, b := range blks[i+1:] {
			var shared []string
			for f := range a.writes {
				if b.reads[f] && !b.writes[f] {
					shared = append(shared, "w:"+f)
				}
			}
			for f := range b.writes {
				if a.reads[f] && !a.writes[f] {
					shared = append(shared, "r:"+f)
				}
			}
			sort.Strings(shared)
			for _, sh := range shared {
				f := sh[2:]
				n++
				key := fmt.Sprintf("%s.expandComponents/order-%s-%s-%s", tname, a.src, f, b.src)
				if sh[0] == 'w' {
					// a (earlier) writes f, b reads it: a's source must precede f in the struct
					ok := a.src != "" && idx[a.src] < idx[f]
					r.check(ok, "C18-R2-source-order", key, c.pos(b.pos), fmt.Sprintf("%s is filled from %s before its own components are taken: %s precedes %s in the message", f, a.src, a.src, f),
						fmt.Sprintf("%s is filled from %s (block at %s) and only then expanded, although %s comes after %s in the message: the destinations of %s receive bits of %s instead of the %s the record carried, and an invalid %s no longer leaves them untouched", f, a.src, c.pos(a.pos), a.src, f, f, a.src, f, f))
				} else {
					// a (earlier) reads f, b (later) writes it: f must precede b's source
					ok := b.src != "" && idx[f] < idx[b.src]
					r.check(ok, "C18-R2-source-order", key, c.pos(b.pos), fmt.Sprintf("%s is expanded as received before %s overwrites it: %s precedes %s in the message", f, b.src, f, b.src),
						fmt.Sprintf("%s is expanded (block at %s) before it is filled from %s, although %s precedes %s in the message: the destinations of %s never see the value %s expands to", f, c.pos(a.pos), b.src, b.src, f, f, b.src))
				}
			}
		}
	}
	return n
}

// c18SubfieldAgreement: the dynamic getter Get<Src>() and the expansion switch on the same
// reference field come from the same profile rows: reference values that share one arm of the
// getter belong to one sub-field row, whose components are defined once — so they must share one
// expansion (or none).
func c18SubfieldAgreement(c *Ctx, r *Report, info *types.Info, tname string, fd *ast.FuncDecl) int {
	recv := info.Defs[fd.Recv.List[0].Names[0]]
	n := 0
	for _, s := range fd.Body.List {
		ifs, ok := s.(*ast.IfStmt)
		if !ok {
			continue
		}
		be, ok := unparen(ifs.Cond).(*ast.BinaryExpr)
		if !ok || be.Op != token.NEQ {
			continue
		}
		sel, ok := unparen(be.X).(*ast.SelectorExpr)
		if !ok || info.Uses[identOf(sel.X)] != recv {
			continue
		}
		src := sel.Sel.Name
		for _, bs := range ifs.Body.List {
			sw, ok := bs.(*ast.SwitchStmt)
			if !ok || sw.Tag == nil {
				continue
			}
			ref := exprStr(sw.Tag)
			// expansion per constant
			exp := map[string]string{}
			for _, cl := range sw.Body.List {
				cc := cl.(*ast.CaseClause)
				// an arm that names reference values and expands nothing: Go does not fall through, so those
				// values lose their components (an arm nobody needs is not written)
				if len(cc.List) > 0 && len(cc.Body) == 0 {
					var nm []string
					for _, e := range cc.List {
						nm = append(nm, exprStr(e))
					}
					r.fail("C18-R2-subfield-agreement", fmt.Sprintf("%s.expandComponents/%s-empty-arm-%s", tname, src, strings.Join(nm, "+")), c.pos(cc.Pos()), "the expansion of "+src+" names "+strings.Join(nm, ", ")+" in an arm of its own that expands nothing (a `case` does not fall through to the next): messages with that reference value keep their component fields invalid")
				}
				var body []string
				for _, st := range cc.Body {
					body = append(body, strings.Join(strings.Fields(stmtStr(c, st)), ""))
				}
				for _, e := range cc.List {
					exp[exprStr(e)] = strings.Join(body, ";")
				}
			}
			// the getter
			g := c.fn(c.fit, tname+".Get"+src)
			if g == nil {
				r.fail("C18-R2-subfield-agreement", tname+"."+src, c.pos(sw.Pos()), "the expansion switches on "+ref+" but there is no dynamic getter Get"+src+" to compare the sub-field arms with")
				continue
			}
			gd := c.decl(g)
			if gd == nil || gd.Recv == nil || len(gd.Recv.List[0].Names) == 0 {
				continue
			}
			grecv := gd.Recv.List[0].Names[0].Name
			rrecv := fd.Recv.List[0].Names[0].Name
			ast.Inspect(gd.Body, func(nd ast.Node) bool {
				gs, ok := nd.(*ast.SwitchStmt)
				if !ok || gs.Tag == nil {
					return true
				}
				if strings.TrimPrefix(exprStr(gs.Tag), grecv+".") != strings.TrimPrefix(ref, rrecv+".") {
					return true
				}
				for _, cl := range gs.Body.List {
					cc := cl.(*ast.CaseClause)
					if len(cc.List) < 2 {
						continue
					}
					n++
					var names []string
					for _, e := range cc.List {
						names = append(names, exprStr(e))
					}
					key := fmt.Sprintf("%s.expandComponents/%s-arm-%s", tname, src, strings.Join(names, "+"))
					first, same := exp[names[0]], true
					for _, nm := range names[1:] {
						if exp[nm] != first {
							same = false
						}
					}
					r.check(same, "C18-R2-subfield-agreement", key, c.pos(sw.Pos()), "the reference values of one sub-field share one expansion",
						fmt.Sprintf("%s share one sub-field of %s (one arm of Get%s) but are expanded differently: the sub-field's components are defined once in the profile, so one of these reference values loses (or gains) component bytes", strings.Join(names, " and "), src, src))
				}
				return false
			})
		}
	}
	return n
}
