#!/bin/bash
# usage: benigncheck.sh <dir-with-patch.diff>  — behaviour-preserving change: every check must stay silent
set -u
export GOFLAGS=-mod=mod GOPROXY=off GOSUMDB=off GOTOOLCHAIN=local GOWORK=off
d="$1"
git -C /repo apply "$d/patch.diff" || { echo "cannot apply"; exit 2; }
ev=$(mktemp -d /tmp/benev-XXXX); cp /verif/known_findings.json "$ev/"
( cd /repo && go build ./... ) >/dev/null 2>&1 || echo "DOES NOT BUILD"
alarms=0
for p in $(python3 -c "import json;print(' '.join(c['property_id'] for c in json.load(open('/verif/MANIFEST.json'))['checks']))"); do
  out=$(/verif/bin/fitcheck -prop "$p" -tier quick -repo /repo -verif "$ev" 2>&1); rc=$?
  if [ $rc -ne 0 ]; then
    alarms=$((alarms+1))
    echo "ALARM $p:"; echo "$out" | grep -E ": C[0-9]+-|: C[0-9][0-9]: " | cut -c1-220 | head -6
  fi
done
rm -rf "$ev"
git -C /repo checkout -- . ; git -C /repo clean -fdq
echo "alarms=$alarms"
