#!/usr/bin/env python3
"""seed_import.py <out-dir> <seed-id> <property> <caught-by-rules (comma)> <needs...>
Copies a confirmed seeded change into /verif/seeded/<seed-id>/ and writes meta.json."""
import json, os, shutil, sys, subprocess
src, sid, prop, caught = sys.argv[1:5]
needs = " ".join(sys.argv[5:])
dst = "/verif/seeded/" + sid
os.makedirs(dst, exist_ok=True)
for f in os.listdir(src):
    if f in ("patch.diff", "notes.md") or f.endswith("_test.go") or f.endswith(".go"):
        shutil.copy(os.path.join(src, f), os.path.join(dst, f if not f.endswith("_test.go") else "demo_test.go.txt"))
head = subprocess.run(["git", "-C", "/repo", "rev-parse", "--short", "HEAD"], capture_output=True, text=True).stdout.strip()
meta = {
    "id": sid, "breaks_property": prop, "needs_to_manifest": needs,
    "origin": "independent sub-agent given only the property text and a scratch worktree of /repo",
    "repo_base_commit": head,
    "confirmed": "seedcheck.sh in a scratch worktree: patch applies to HEAD, go build ./... ok, pinned suite (go test -vet=off -count=1 ./...) passes, demonstration test fails with the change and passes without it",
    "detected_by": caught.split(","),
    "ran": ["./seedcheck.sh <seed> %s (git -C /repo apply patch.diff; ./check %s quick; git -C /repo checkout -- .)" % (prop, prop)],
    "demonstration": "demo_test.go.txt (rename to *_test.go in the package root of a checkout with the patch applied; go test -run TestSeedDemo .)",
}
json.dump(meta, open(os.path.join(dst, "meta.json"), "w"), indent=1)
print("imported", sid)
