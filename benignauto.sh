#!/bin/bash
# usage: [SRC_REPO=<clean worktree>] benignauto.sh <mode> [--tests]   — mechanical behaviour-preserving rewrite of a scratch copy; every check must stay silent
set -u
export GOFLAGS=-mod=mod GOPROXY=off GOSUMDB=off GOTOOLCHAIN=local GOWORK=off
mode="$1"
tmp=$(mktemp -d /tmp/benign-XXXX)
trap 'rm -rf "$tmp"' EXIT
rsync -a --exclude .git "${SRC_REPO:-/repo}/" "$tmp/repo/"
/verif/bin/benign -dir "$tmp/repo" -mode "$mode" || exit 2
( cd "$tmp/repo" && go build ./... ) || { echo "DOES NOT BUILD"; exit 2; }
if [ "${2:-}" = "--tests" ]; then ( cd "$tmp/repo" && go test -vet=off -count=1 ./... 2>&1 | tail -8 ); fi
mkdir -p "$tmp/verif"; cp /verif/known_findings.json "$tmp/verif/"
alarms=0
for p in $(python3 -c "import json;print(' '.join(c['property_id'] for c in json.load(open('/verif/MANIFEST.json'))['checks']))") ${EXTRA_PROPS:-}; do
  out=$(${FITCHECK_BIN:-/verif/bin/fitcheck} -prop "$p" -tier quick -repo "$tmp/repo" -verif "$tmp/verif" 2>&1); rc=$?
  if [ $rc -ne 0 ]; then
    alarms=$((alarms+1))
    echo "ALARM $p: $(echo "$out" | grep -c '^VIOLATION')"; echo "$out" | grep -E "^[^ ]*: C[0-9]+: |^ C[0-9]+: " | cut -c1-200 | head -${SHOW:-8}
  fi
done
echo "mode=$mode alarms=$alarms"
