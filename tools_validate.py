#!/usr/bin/env python3
# validate MANIFEST.json and every evidence file against the schemas (tooling venv has jsonschema)
import json,sys,glob
import jsonschema
ms=json.load(open('/root/.vp/MANIFEST.schema.json')); es=json.load(open('/root/.vp/EVIDENCE.schema.json'))
m=json.load(open('/verif/MANIFEST.json')); jsonschema.validate(m,ms)
ids=[c['property_id'] for c in m['checks']]
na=[c['property_id'] for c in m.get('not_applicable',[])]
allp=[json.loads(l)['id'] for l in open('/verif/properties.jsonl')]
assert sorted(ids+na)==sorted(allp),(sorted(set(allp)-set(ids+na)),sorted(set(ids)&set(na)))
for f in sorted(glob.glob('/verif/evidence/C*.json')):
    ev=json.load(open(f)); jsonschema.validate(ev,es)
    lvl=[c for c in m['checks'] if c['property_id']==ev['property_id']]
    if lvl: assert lvl[0]['level_claimed']['category']==ev['level'],f
    c=ev['coverage']
    if ev['level']=='proof': assert c['obligations']==c['discharged'] or c.get('known_findings',0)>0,f
    print(f,'ok',ev['level'],c.get('obligations'),c.get('discharged'))
print('manifest ok:',len(ids),'claimed,',len(na),'not applicable')
