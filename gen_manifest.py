#!/usr/bin/env python3
"""Writes /verif/MANIFEST.json. Edit the tables below, then run this script."""
import json

ENGINE = "fitcheck"

# id -> (level, technique, level text, level note, design ref)
CLAIMED = {
 "C15": ("proof", "exhaustive constant-table x Go-type agreement check over the type-checked source (go/types + exact folding of internal/types pure functions from SSA); cross-generation check of the number-to-member assignment against the five golden generator outputs (parsed with go/parser); row-kind cross-check against the generator's golden outputs",
         "Every one of the ~5200 obligations (each knownMsgNums key, each _fields row, each constructor value, each container member, all 256 base-type bytes, all 512 types.Fit codes) is enumerated from the source and discharged; the space is finite and visible in the source, so exhaustive enumeration is a proof of the table-level statement.",
         "Trusted: go/types; the independent FIT base-type table in checker/c15.go; the SSA transfer functions of checker/eval.go; documented reflect panic conditions. Not decided: agreement of field numbers with SDK 21.115 (workbook not in the repository).",
         "DESIGN.md 4 C15"),
 "C06": ("other", "encoder-definition x validator agreement (exact folding of validateFieldDef over every definition Encode can emit for every hosted profile row), inverse-conversion shape rules on SSA/syntax for time, local time and coordinates, string clamp/terminator pairing, array-padding rules, unset-field flow rule; encoder byte-order discipline (every multi-byte write through encoder.arch); list written is the file's own list in counter order; decoder arm table and C18 slice/guard rules run as premises (report rule filter); scratch-buffer escape rule and router shape rules of the decoder",
         "Decides structural necessary conditions that tie Encode and Decode together and are claimed nowhere else: every definition the encoder can emit for a hosted field is accepted by the decoder's validator for that very row; the per-kind conversions of the two halves are inverse shapes; strings are clamped/terminated as the decoder scans them; short arrays are padded with the invalid value the decoder's element count and invalid table agree with; no message reaches a container other than through File.add. Breaking any of these breaks the round trip for some in-domain File. Field-for-field equality itself is a statement about run-time values and is NOT decided.",
         "Trusted: exact folding of validateFieldDef (checker/eval.go); time.Time Zone/In/FixedZone semantics; results of C15 (tables) and C17 (coordinate constructors). Not decided: value equality over Files; the component rule (C18) and timestamps over sequences (C12).",
         "DESIGN.md 4 C06"),
 "C20": ("proof", "shape matching of all generated String methods (3 stringer shapes) + decoding of their constant tables, compared with the package's constants from go/types; who-assigns rule for value names in the stringer",
         "For each of the 176 generated String methods the relation value->substring denoted by the tables is computed for the complete table domain and compared with every constant of the type; the fall-through arm and case-range disjointness cover all remaining values of the type, so the statement is decided for every value, not a sample.",
         "Trusted: go/types constant values; Go semantics of switch/slice/map lookup; strconv.FormatInt. A String method that matches none of the three shapes is reported as undecided (fail closed). Not decided: byte identity with the stringer's output (needs the generator to run).",
         "DESIGN.md 4 C20"),
 "C03": ("proof", "AST/type shape proof over the 17 routers, File.add, File.init, accessors and Encode's switch + SSA dominance for the decoder's add sites; C13 slot rules as a premise (definition handed to the router is the record's own); File.FileId written only by File.add on the decode path; NotSupportedError propagation (carriers by call graph, path analysis incl. errors overwritten by a loop's next iteration)",
         "Routing is a finite structure fully visible in syntax and types: 17 containers, 64 arms, 17 file-type pairings. All are enumerated and each arm/pairing is discharged, which settles the statement for every file-type value and every interleaving because no arm reads state other than its own slot.",
         "Trusted: Go semantics of type switch/append/assignment; the paper argument in DESIGN.md C03 that obligations 1-6 imply the statement; matcher accepts exactly two arm statements, anything else is undecided (fail closed).",
         "DESIGN.md 4 C03"),
 "C14": ("proof", "GF(2)-affine abstract interpretation of updateByte's SSA + constant-table linearity + fold-shape matching",
         "The CRC step is GF(2)-affine, so one abstract interpretation yields its exact 16x24 matrix; equality with the CRC-16/ARC reference matrix settles all 65536x256 transitions, the composed matrix settles the residue rule for every state, and the fold/one-register shapes settle every byte string and every write partition.",
         "Trusted: the affine transfer functions (^, & const, shifts by const, zero-extension, linear table load) in checker/c14.go; Go semantics of range over a slice. Sum(in) (big-endian append from hash.Hash) is outside the statement. Any operator outside the domain makes the obligation undecided (fail closed).",
         "DESIGN.md 4 C14"),
 "C08": ("other", "global-write effect analysis over the VTA call graph + type-based who-may-write rule for profile rows + map-order lint + ambient-input ban; nothing on Encode's call tree writes a member of a message it was handed",
         "Decides the structural clause 'no history channel': no package-level variable is written on any path from the entry points (known finding: the three component accumulators), no iteration-order dependent output, no ambient input. This is a necessary condition of purity that holds on every path or not at all; the behavioural equality with a fresh process is its consequence under the stated stdlib assumption and is not observed.",
         "Trusted: VTA-over-CHA call graph over-approximates dispatch; read-only summaries of listed external callees; stdlib purity for the calls made. Not decided: deep equality of results as an observation.",
         "DESIGN.md 4 C08"),
 "C09": ("other", "shared-location effect analysis (same engine as C08) + concurrency-construct ban + store-root ownership classification",
         "Decides absence of shared mutable locations between calls on independent arguments: every store in reachable library code is rooted at a parameter/receiver, captured variable or fresh allocation, or is a reported package-variable write (known finding: accumulators). Sufficient for race freedom on independent inputs; schedules are not explored.",
         "Trusted: call graph; external read-only summaries; stdlib functions called on per-call values share no hidden mutable state. Not decided: observation under the race detector, equality with sequential results.",
         "DESIGN.md 4 C09"),
 "C11": ("other", "path-sensitive error-flow analysis on SSA with a nilness domain (every error-producing call in the reachable decoder), swallow-site guard rule, sentinel who-may-produce rule; container-writers rule (messages reach File/containers complete, through the routers); errors overwritten by re-execution of the producing call in a loop are dropped errors",
         "Decides per path, which covers every cut and fault offset: no error produced by a callee in the decoder can be non-nil while the enclosing function returns nil, except at the one EOF-class-guarded chain end. A dropped or swallowed error is visible in the CFG on every input that reaches it; the tests only sample offsets.",
         "Trusted: go/ssa CFG; hash.Hash.Write never fails; fmt.Errorf/errors.New never return nil; stdlib sentinel errors are non-nil; frozen exception fill/Read (n > 0 => err = nil) shape-checked on every run. Not decided: content of the partial File beyond C03-6.",
         "DESIGN.md 4 C11"),
 "C04": ("other", "who-reads census, read-feed pairing by structural access-path equality and bound algebra, hash typestate, verdict dominance, header-layout table agreement, encoder hash/output pairing (SSA + syntax); every entry point goes through the one decode (no private reading path)",
         "Decides the structural conditions the CRC verdicts rest on for every path: every byte taken from the reader is fed to the running checksum, every integrity verdict is a zero-residue test on a fed hash (or a documented exemption edge), the three header layouts agree, the encoder hashes what it writes. Together with C14 and the CRC burst theorem this gives the detection clause on paper; the input-output statement itself is not observed.",
         "Trusted: io.ReadFull/binary.Read/io.CopyN/io.Reader contracts as summarised; CRC burst-error theorem. Not decided: the quantified corruption statement as an input-output fact; corruptions that alter which bytes are parsed are argued on paper only.",
         "DESIGN.md 4 C04"),
 "C10": ("other", "who-reads census, exact/capped read shape rules (min-phi recognition, edge-derived constant sets), counter pairing, readFull exact-fill, single-store rule for the limit, loop-exit dominance, per-file decoder state (fresh allocation or complete re-initialisation, field by field) (SSA + call graph); no map update / element store through decodeOptions members on the decode path; read-feed pairing of every read site",
         "Decides the framing discipline on every path and for every chunking: reads are exact or capped by the remaining data size, the consumed-byte counter is advanced exactly with the read position, success requires n >= limit then a 2-byte CRC read, chained files get a fresh decoder. Chunking cannot matter because no rule depends on how many bytes a Read returns.",
         "Trusted: io.ReadFull/binary.Read/io.CopyN/io.Reader contracts. Not decided: equality of chained results with stand-alone decoding (paper consequence with C08); n <= limit is implied by cap + counting but not computed.",
         "DESIGN.md 4 C10"),
 "C16": ("other", "control-dependence (post-dominator) and data-flow non-interference analysis of option-derived values on SSA + guard-dominance rules for the two counters + shape rules for handlers; exactness of guards by control dependence on the error-free sub-graph of the CFG",
         "Decides that option values cannot influence parsing: every instruction control-dependent on an option-derived branch is logging or unknown-item bookkeeping, option values flow nowhere else, the counters are guarded by exactly the conditions the statement names, and the reports are deferred before parsing and sorted. Holds for all 8 option combinations and all streams because it is a property of the code's dependence structure.",
         "Trusted: post-dominator computation; Logger implementations do not reach back into the decoder. Not decided: counts as numbers on concrete streams; the 'every record completed before the failure' clause.",
         "DESIGN.md 4 C16"),
 "C13": ("other", "exhaustive evaluation of the record-header guards from SSA over all 256 byte values (cube partition), slot who-may-write/index rules, freshness and byte-order switch rules; stored definitions immutable outside the definition parser (mutating-use analysis of defmsg members and the lists loaded from them); value-identity rule for the definition handed to the field parser",
         "Decides header dispatch and local-type extraction for all 256 header bytes exactly, that a definition is stored only under its own local type, that a missing definition is an error, and that definitions share no storage and carry their own byte order. These are the structural reasons slots are independent; decoded values of interleavings are not computed.",
         "Trusted: guard transfer functions (& const, >> const, comparisons); dominator tree. Not decided: values decoded from interleaved streams.",
         "DESIGN.md 4 C13"),
 "C12": ("other", "paired-update and who-may-write rules on the reference-time state (SSA), normal-form recognition of the compressed update, guard dominance, constant and conversion-shape checks; transitive control-dependence rule: the explicit re-base depends only on the invalid, kind and field-number tests; row-kind cross-check against the generator's golden outputs (sibling agreement through time)",
         "Decides the state discipline the time rules rest on: only the UTC field 253 and the compressed branch re-base the reference, each re-base updates the 5-bit offset with it, the update has the rollover form, invalid values are skipped, and the epoch/zone conversions have the documented shapes. Sequence arithmetic over long runs is a consequence of the recognised formula and is not computed.",
         "Trusted: time package semantics; recognised normal form of the compressed update (an equivalent rewrite is reported as undecided, not accepted silently). Not decided: computed values over sequences.",
         "DESIGN.md 4 C12"),
 "C18": ("other", "sibling-arm rule over the 17 routers, bit-slice lint over all expandComponents bodies incl. guard exactness, dependency order and non-slice assignments (syntax + types), accumulator recognised on SSA path terms, construction/scope rules (SSA); read-after-write ordering of expansion blocks by struct order of their sources; expansion arms of reference values sharing a dynamic-getter arm must be identical; store census on accumulator fields",
         "Decides that expansion is invoked wherever a named component-bearing message is stored, that every recognised bit slice is well-formed, guarded by the source's invalid value and contiguous, and the accumulator discipline. Known findings (generator-rooted): package-level never-reset accumulators, two zero-mask accumulators, one narrow shift. The component layout against the SDK and the sums over streams are not decided.",
         "Trusted: Go shift/conversion semantics; C15-4 constructor values. Not decided: layout against the 21.115 profile (workbook absent), computed sums.",
         "DESIGN.md 4 C18"),
 "C17": ("other", "constant folding, comparison of the value-type methods' symbolic path terms (SSA normal form) with the expected path sets, and guard-interval extraction: exact SSA evaluation of the semicircle constructors at one representative of every interval between their comparison constants; row-kind cross-check against the generator's golden outputs",
         "Decides the sentinel, bounds, factors, guard structure and conversion shapes; the accepted set of NewLatitude/NewLongitude is exact for all 2^32 inputs because the argument is only compared with constants (finite set of orderings). Known finding: +90 degrees exactly is rejected. The numeric clauses (round trip within one semicircle, printed form within 2e-5, bijection of seconds) need enumeration of 2^32 values and are not decided.",
         "Trusted: evaluator transfer functions; IEEE-754 semantics of the named operations; strconv.FormatFloat. Not decided: numeric accuracy clauses.",
         "DESIGN.md 4 C17"),
 "C05": ("other", "effect/ordering rules on Encode (SSA dominance), exhaustive evaluation of the emitted record-header bytes over all 256 local numbers, definition-layout shape rules, per-class agreement of declared and emitted field sizes over every (kind, base, array) class of the profile table, typestate dataflow for 'definition written before data'; no-silent-skip dominance rule over the output-writing functions of Encode's call tree; constant-comparison rule over the omission decision (call-graph slice of getEncodeMesgDef)",
         "Decides the structural well-formedness conditions: promised post-state stored, data size taken after the last record, header bytes in the decoder's classes, definition layout, declared size = emitted size for every table class, each data record preceded by its own written definition. These hold for every File because they are properties of the encoder's code and the constant table. Wire values and conformance under an independent parser are not observed.",
         "Trusted: encoding/binary.Write size semantics; C15 and C13 results. Not decided: value equality on the wire; custom binary.ByteOrder implementations.",
         "DESIGN.md 4 C05"),
 "C07": ("other", "census of every error origin and potential panic site in the functions reachable from Encode (SSA + call graph), each classified by its guarding condition and discharged by constant-table facts about the hosted message types; reflect precondition table; expansion order/guard clauses (idempotence); every-visited-message-is-written dominance rules and profile-row identity in the definition builder; record-layout and no-silent-skip rules of C05 run here as well; origin-based nil-safety analysis over Encode's scope (local cells, captured variables, collections of pointers); Encode-reachable methods of message types (class hierarchy for reflection-fed interface calls) do not write their receiver; accumulator-state rule; exactness of guards by control dependence on the error-free sub-graph of the CFG",
         "Decides shape-level encodability: every way Encode can fail or panic is enumerated; each is a write that cannot fail, the caller's writer, impossible for a File whose init succeeded, or excluded by the tables for every hosted message type. The one origin that cannot be discharged (UTF-8 check vs. arbitrary decoded bytes) is a known finding. Content equality after re-encoding and the fixpoint clause are not decided.",
         "Trusted: bytes.Buffer/hash writes never fail; C15 and C03 results; reflect panic conditions. Not decided: equality of re-decoded content, second round trip, nil container elements.",
         "DESIGN.md 4 C07"),
 "C02": ("other", "exact folding of the definition validator over (profile class x base-type byte x size) joined with the consumer arms read from syntax (arm/table agreement, sign-extension obligation), byte-order discipline, field-target, skip-by-size (incl. both sections on every success path), developer-section, scratch-escape, widening, string-arm (SSA) and readFull exact-fill rules; string-array arm must cut strings inside a loop; every non-invalid time value reaches Set on all paths of parseTimeStamp; constructor value of every row is the invalid value of its base type (absent fields); per-file decoder-state rule",
         "The statement is value-level and is not decided as a whole. Decided are eight structural necessary conditions; each one, when broken, makes some decoded value differ from its wire value (wrong byte order, wrong width or setter, missing sign extension, write to the wrong struct field, unread bytes, skipped developer section, aliasing the scratch buffer, destroyed narrow big-endian fields).",
         "Trusted: evaluator transfer functions; reflect setter semantics; builtin copy. Not decided: equality of every decoded value with its wire value; narrow-coordinate sign padding; string termination; developer-field content.",
         "DESIGN.md 4 C02"),
 "C01": ("other", "exact folding of validateFieldDef over the complete (profile class x base byte x size) product joined with the consumer arms; panic-site census discharged by an interval analysis with guard refinement, linear loop invariants proved inductive by candidate elimination over the paths of the loop body, length-guard and map-initialisation dominance rules, range-loop semantics, table obligations and a short frozen audited list; loop census with ranking arguments; call-graph closure; origin-based nil-safety analysis of every dereference / interface call on the decode path (parameters by call-site fixpoint over the VTA graph, field disciplines init-before-use / set-before-publish, path walk for lazily built globals); explicit panics decided structurally (exhaustive Kind switch, known-implies-valid at every call site, pruned-edge reachability in the cursor walk); ByteOrder read-length rule; counted loops must not be able to wrap their counter; origin-based validity analysis of reflect.Values (zero-Value receivers) over SSA and the VTA call graph; must-pass-through (edge/block cut) rule for File.init",
         "The exhaustive single-field-definition clause is decided exactly (1.9 M validator points, every accepted point held against its consuming arm). For the rest, every potential panic site and every loop in the functions reachable from the five entry points is enumerated and must carry a discharge; an undischarged site or unclassified loop is reported with its call path. Hanging readers that violate the io.Reader contract, stdlib-internal panics and memory exhaustion are outside.",
         "Trusted: evaluator/interval transfer functions; documented reflect and encoding/binary panic conditions; 7 audited sites (buffer cursor invariant, copy count, invariant panics, dead default arms), each with its reason in checker/c01.go; nil-dereference freedom is covered only by the targeted guard rules (definition slot, profile row, logger, constructor table), not by a general nilness analysis.",
         "DESIGN.md 4 C01"),
 "C19": ("other", "determinism lint (map-order rule with singleton facts, ambient-input and timestamp-flag rules) emitter-agreement shape rules, selection-column read-only rule, exactly-one-entry rule for pick-any map loops (interprocedural length facts plus a re-checked fill chain), version-string path term and nil-checked map lookups over the generator packages (syntax + types + SSA dominance); unconditional-import rule on the emitter syntax; exactness of guards by control dependence on the error-free sub-graph of the CFG",
         "Decides two structural necessary conditions of the generator: no iteration-order or ambient dependence in what is emitted (one frozen, reasoned exception), and the three per-field emitters walk the same slice one item per element with the table's struct index equal to the position, the version printed being the pair passed in, disabled rows skipped before the slice is built. Exit status, compilation and byte identity of real runs over workbook subsets need the command to run and are not decided.",
         "Trusted: map iteration is the only nondeterminism source in sequential code without ambient inputs. Not decided: everything that requires running fitgen (see DESIGN.md 5).",
         "DESIGN.md 4 C19"),
}

NOT_APPLICABLE = {
}

ALL = ["C%02d" % i for i in range(1, 21)]
PENDING_REASON = "check not built yet in this session (DESIGN.md section 8 build order); will be claimed once its rule lands"


def main():
    checks = []
    for pid in ALL:
        if pid not in CLAIMED:
            continue
        level, tech, text, note, ref = CLAIMED[pid]
        checks.append({
            "property_id": pid,
            "quick_cmd": "./check %s quick" % pid,
            "thorough_cmd": "./check %s thorough" % pid,
            "evidence_file": "/verif/evidence/%s.json" % pid,
            "replay_cmd_template": "./bin/fitcheck -replay {path}",
            "engine": ENGINE,
            "level_claimed": {"category": level, "text": text, "design_ref": ref},
            "level_note": note,
            "technique": "static analysis: " + tech,
        })
    na = []
    for pid in ALL:
        if pid in CLAIMED:
            continue
        na.append({"property_id": pid, "reason": NOT_APPLICABLE.get(pid, PENDING_REASON)})
    m = {
        "version": 1,
        "setup_cmd": "cd /verif/checker && GOFLAGS=-mod=mod GOPROXY=off GOSUMDB=off GOTOOLCHAIN=local GOWORK=off go build -o ../bin/fitcheck .",
        "hooks": {
            "guard": "verif",
            "enable": "none needed: the analyses read unexported declarations directly from the type-checked source; no hook commits exist",
            "baseline_off_cmd": "cd /repo && go test -vet=off -count=1 ./...",
            "source_commits": [],
            "add_only": True,
        },
        "engines": [{
            "name": ENGINE,
            "path": "/verif/checker",
            "serves_properties": [c["property_id"] for c in checks],
            "kind_free_text": "repository-specific static analyser (go/packages + go/types + go/ssa + VTA call graph, x/tools v0.29.0): table proofs, shape matchers, effect/error-flow/dominance rules, exact folding of pure table functions; nothing of /repo is executed",
        }],
        "checks": checks,
        "not_applicable": na,
        "notes": "Family: static analysis. Every check loads /repo's working tree on each run (go/packages LoadAllSyntax), decides obligations keyed by rule+construct, prints VIOLATION lines with a replay file naming file:line/function/rule, and writes evidence/<id>.json. Known findings: /verif/known_findings.json.",
    }
    json.dump(m, open("/verif/MANIFEST.json", "w"), indent=1)
    print("claimed:", [c["property_id"] for c in checks])


main()
